"""A small JSON-schema validator of the harness's own for the draft-07 subset the published
schemas use (type, properties, required, items, $ref, definitions, enum, const), cross-checked
against `jsonschema` when that package is importable.  The schemas are read from /repo's working
tree on every use, so an edited schema is what is checked against."""
from __future__ import annotations

import json
import os

SCHEMA_DIR = os.path.join(os.environ.get('VERIF_REPO') or '/repo',
                          'bridge_env/data_handler/json_handler')

_TYPES = {
    'object': lambda v: isinstance(v, dict),
    'array': lambda v: isinstance(v, list),
    'string': lambda v: isinstance(v, str),
    'integer': lambda v: isinstance(v, int) and not isinstance(v, bool),
    'number': lambda v: isinstance(v, (int, float)) and not isinstance(v, bool),
    'boolean': lambda v: isinstance(v, bool),
    'null': lambda v: v is None,
}


class _Store:
    def __init__(self, directory):
        self.dir = directory
        self.docs = {}

    def load(self, name):
        if name not in self.docs:
            with open(os.path.join(self.dir, name), 'r', encoding='utf-8') as f:
                self.docs[name] = json.load(f)
        return self.docs[name]

    def resolve(self, ref, current):
        if '#' in ref:
            fname, frag = ref.split('#', 1)
        else:
            fname, frag = ref, ''
        docname = fname or current
        doc = self.load(docname)
        node = doc
        for part in [p for p in frag.split('/') if p]:
            node = node[part.replace('~1', '/').replace('~0', '~')]
        return node, docname


def _validate(store, schema, value, path, current, errs):
    if len(errs) > 20:
        return
    if '$ref' in schema:
        node, doc = store.resolve(schema['$ref'], current)
        _validate(store, node, value, path, doc, errs)
        return
    t = schema.get('type')
    if t is not None:
        ts = t if isinstance(t, list) else [t]
        if not any(_TYPES[x](value) for x in ts):
            errs.append(f'{path}: {json.dumps(value)[:60]} is not of type {t}')
            return
    if 'enum' in schema and value not in schema['enum']:
        errs.append(f'{path}: {json.dumps(value)[:60]} not in enum')
    if 'const' in schema and value != schema['const']:
        errs.append(f'{path}: {json.dumps(value)[:60]} is not the constant')
    if isinstance(value, dict):
        for r in schema.get('required', ()):
            if r not in value:
                errs.append(f'{path}: required property {r!r} missing')
        for k, sub in schema.get('properties', {}).items():
            if k in value:
                _validate(store, sub, value[k], f'{path}.{k}', current, errs)
    if isinstance(value, list) and isinstance(schema.get('items'), dict):
        for i, v in enumerate(value):
            _validate(store, schema['items'], v, f'{path}[{i}]', current, errs)


def validate_log(doc, directory=SCHEMA_DIR):
    store = _Store(directory)
    errs = []
    try:
        schema = store.load('log_format.schema.json')
        _validate(store, schema, doc, '$', 'log_format.schema.json', errs)
    except Exception as e:
        errs.append(f'schema: cannot be applied: {type(e).__name__}: {e}')
    return errs


def validate_settings(doc, directory=SCHEMA_DIR):
    store = _Store(directory)
    errs = []
    try:
        schema = store.load('board_setting_format.schema.json')
        _validate(store, schema, doc, '$', 'board_setting_format.schema.json', errs)
    except Exception as e:
        errs.append(f'schema: cannot be applied: {type(e).__name__}: {e}')
    return errs
