"""refbridge -- a small executable model of contract bridge written from the Laws and the
duplicate scoring table.  Imports nothing from bridge_env; plain ints and strings.

Seats: 'N','E','S','W' (clockwise).  Calls: '1C'..'7NT','Pass','X','XX'.  Cards: suit letter +
rank character, e.g. 'C2','DT','SA' (the same spelling the JSON log uses).
"""
from __future__ import annotations

SEATS = ('N', 'E', 'S', 'W')
SEAT_NAMES = {'N': 'North', 'E': 'East', 'S': 'South', 'W': 'West'}
NAME_TO_SEAT = {v.lower(): k for k, v in SEAT_NAMES.items()}
DENOMS = ('C', 'D', 'H', 'S', 'NT')
SUITS = ('C', 'D', 'H', 'S')
RANKS = '23456789TJQKA'
BIDS = tuple(f'{lvl}{d}' for lvl in range(1, 8) for d in DENOMS)
CALLS = BIDS + ('Pass', 'X', 'XX')
CARDS = tuple(s + r for s in SUITS for r in RANKS)
VULS = ('None', 'NS', 'EW', 'Both')


def left(seat):
    return SEATS[(SEATS.index(seat) + 1) % 4]


def partner(seat):
    return SEATS[(SEATS.index(seat) + 2) % 4]


def side(seat):
    return 'NS' if seat in 'NS' else 'EW'


def other_side(sd):
    return 'EW' if sd == 'NS' else 'NS'


def card_index(card):
    return SUITS.index(card[0]) * 13 + RANKS.index(card[1])


def bid_rank(bid):
    return BIDS.index(bid)


class Auction:
    """Auction according to Law 17-22 (rotation, end) and Law 18/19 (sufficiency, doubles)."""

    def __init__(self, dealer):
        self.dealer = dealer
        self.calls = []          # (seat, call)
        self.turn = dealer
        self.done = False

    def copy(self):
        a = Auction(self.dealer)
        a.calls = list(self.calls)
        a.turn = self.turn
        a.done = self.done
        return a

    def _last_bid(self):
        for seat, c in reversed(self.calls):
            if c in BIDS:
                return seat, c
        return None, None

    def _doubling(self):
        """state of the last bid: '', 'X' or 'XX', and who doubled"""
        st = ''
        for seat, c in reversed(self.calls):
            if c in BIDS:
                break
            if c == 'XX' and st == '':
                st = 'XX'
            elif c == 'X' and st == '':
                st = 'X'
        return st

    def legal(self, call):
        if self.done:
            return False
        if call == 'Pass':
            return True
        lb_seat, lb = self._last_bid()
        if call in BIDS:
            return lb is None or bid_rank(call) > bid_rank(lb)
        st = self._doubling()
        if call == 'X':
            return lb is not None and st == '' and side(lb_seat) != side(self.turn)
        if call == 'XX':
            return lb is not None and st == 'X' and side(lb_seat) == side(self.turn)
        return False

    def legal_calls(self):
        return [c for c in CALLS if self.legal(c)]

    def apply(self, call):
        if not self.legal(call):
            raise ValueError(f'illegal call {call} by {self.turn} after {self.calls}')
        self.calls.append((self.turn, call))
        n = len(self.calls)
        cs = [c for _, c in self.calls]
        if n == 4 and all(c == 'Pass' for c in cs):
            self.done = True
        elif n >= 4 and cs[-3:] == ['Pass'] * 3 and any(c != 'Pass' for c in cs):
            self.done = True
        if self.done:
            self.turn = None
        else:
            self.turn = left(self.turn)

    def result(self):
        """-> dict(contract str like '3NTX' or 'Passed_out', level, denom, doubling, declarer)"""
        assert self.done
        lb_seat, lb = self._last_bid()
        if lb is None:
            return {'contract': 'Passed_out', 'level': None, 'denom': None, 'doubling': '',
                    'declarer': None}
        denom = lb[1:]
        sd = side(lb_seat)
        declarer = None
        for seat, c in self.calls:
            if c in BIDS and c[1:] == denom and side(seat) == sd:
                declarer = seat
                break
        st = self._doubling()
        return {'contract': lb + st, 'level': int(lb[0]), 'denom': denom, 'doubling': st,
                'declarer': declarer}


class Play:
    """Play of the 13 tricks (Law 44: highest trump, else highest of the suit led)."""

    def __init__(self, hands, declarer, denom):
        self.hands = {s: set(hands[s]) for s in SEATS}
        self.declarer = declarer
        self.dummy = partner(declarer)
        self.trump = denom if denom != 'NT' else None
        self.leader = left(declarer)
        self.turn = self.leader
        self.trick = []         # cards of the current trick
        self.trick_no = 1
        self.tricks = []        # (leader, [4 cards])
        self.won = {'NS': 0, 'EW': 0}
        self.ncards = 0

    @property
    def done(self):
        return self.trick_no > 13

    def follow_set(self, seat=None):
        seat = seat or self.turn
        hand = self.hands[seat]
        if self.trick:
            same = {c for c in hand if c[0] == self.trick[0][0]}
            if same:
                return same
        return set(hand)

    def holds(self, card, seat=None):
        return card in self.hands[seat or self.turn]

    def apply(self, card):
        seat = self.turn
        if card not in self.hands[seat]:
            raise ValueError(f'{seat} does not hold {card}')
        self.hands[seat].discard(card)
        self.trick.append(card)
        self.ncards += 1
        if len(self.trick) == 4:
            w = self._winner_index(self.trick)
            winner = self.leader
            for _ in range(w):
                winner = left(winner)
            self.tricks.append((self.leader, list(self.trick)))
            self.won[side(winner)] += 1
            self.leader = winner
            self.turn = winner
            self.trick = []
            self.trick_no += 1
        else:
            self.turn = left(seat)

    def _winner_index(self, cards):
        best = None
        if self.trump is not None:
            for i, c in enumerate(cards):
                if c[0] == self.trump and (best is None or
                                           RANKS.index(c[1]) > RANKS.index(cards[best][1])):
                    best = i
        if best is None:
            led = cards[0][0]
            for i, c in enumerate(cards):
                if c[0] == led and (best is None or
                                    RANKS.index(c[1]) > RANKS.index(cards[best][1])):
                    best = i
        return best

    def actor(self):
        """the connection that must supply the next card: declarer plays dummy's cards"""
        return self.declarer if self.turn == self.dummy else self.turn


def is_vulnerable(vul, seat):
    if vul == 'Both':
        return True
    if vul == 'None':
        return False
    return vul == side(seat)


def duplicate_score(level, denom, doubling, vulnerable, tricks):
    """Score for declarer's side (Law 77)."""
    need = level + 6
    mult = {'': 1, 'X': 2, 'XX': 4}[doubling]
    if tricks < need:
        down = need - tricks
        if doubling == '':
            return -(100 if vulnerable else 50) * down
        if vulnerable:
            pen = 200 + 300 * (down - 1)
        else:
            pen = 100
            if down >= 2:
                pen += 200 * min(down - 1, 2)
            if down >= 4:
                pen += 300 * (down - 3)
        return -pen * (mult // 2)
    per = 20 if denom in ('C', 'D') else 30
    trick_score = per * level + (10 if denom == 'NT' else 0)
    trick_score *= mult
    score = trick_score
    if trick_score >= 100:
        score += 500 if vulnerable else 300
    else:
        score += 50
    if level == 6:
        score += 750 if vulnerable else 500
    elif level == 7:
        score += 1500 if vulnerable else 1000
    if doubling == 'X':
        score += 50
    elif doubling == 'XX':
        score += 100
    over = tricks - need
    if doubling == '':
        score += per * over
    else:
        score += over * (100 if not vulnerable else 200) * (mult // 2)
    return score


def board_record(board, calls, cards, teams):
    """Expected JSON log record of one board.

    board: dict(board_id, dealer, vul, deal={seat: [cards]}, dda or None)
    calls: list of call strings in order; cards: list of card strings in play order (52 or 0)
    teams: dict(NS=..., EW=...)
    """
    a = Auction(board['dealer'])
    for c in calls:
        a.apply(c)
    if not a.done:
        raise ValueError('auction not finished')
    res = a.result()
    rec = {
        'players': {'N': teams['NS'], 'E': teams['EW'], 'S': teams['NS'], 'W': teams['EW']},
        'board_id': board['board_id'],
        'dealer': board['dealer'],
        'deal': {s: sorted(board['deal'][s], key=card_index) for s in SEATS},
        'vulnerability': board['vul'],
        'bid_history': list(calls),
        'contract': res['contract'],
        'declarer': res['declarer'],
        'score_type': 'IMP',
    }
    if res['declarer'] is None:
        rec['play_history'] = None
        rec['taken_trick'] = None
        rec['scores'] = {'NS': 0, 'EW': 0}
    else:
        p = Play(board['deal'], res['declarer'], res['denom'])
        for c in cards:
            p.apply(c)
        if not p.done:
            raise ValueError('play not finished')
        sd = side(res['declarer'])
        taken = p.won[sd]
        sc = duplicate_score(res['level'], res['denom'], res['doubling'],
                             is_vulnerable(board['vul'], res['declarer']), taken)
        rec['play_history'] = [{'leader': ld, 'cards': list(cs)} for ld, cs in p.tricks]
        rec['taken_trick'] = taken
        rec['scores'] = {sd: sc, other_side(sd): -sc}
    if board.get('dda') is not None:
        rec['dda'] = board['dda']
    return rec
