"""Blue Chip Bridge protocol v18: a tolerant tokenizer of the harness's own (case- and
spacing-insensitive, both card notations) and the expected per-seat token streams of a session
derived from refbridge.  Imports nothing from bridge_env.
"""
from __future__ import annotations

import re

from . import refbridge as rb

_SEAT = r'(north|east|south|west)'
_WS = r'\s+'


def _seat(name):
    return rb.NAME_TO_SEAT[name.lower()]


# the team name is everything between ONE separator after the seat and ONE before "seated": a
# name may itself begin or end with blanks or contain runs of them, and the bundled client
# compares this line verbatim
_RE_SEATED = re.compile(rf'^{_SEAT}\s(.*)\sseated\s*$', re.I | re.S)
_RE_TEAMS = re.compile(r'^teams\s*:\s*n/s\s*:\s*"(.*)"\s*\.?\s*e/w\s*:\s*"(.*)"\s*$', re.I | re.S)
_RE_START = re.compile(r'^start\s+of\s+board\s*$', re.I)
_RE_HEADER = re.compile(rf'^board\s+number\s+(\d+)\s*\.\s*dealer\s+{_SEAT}\s*\.\s*'
                        r'(neither|n/s|e/w|both)\s+vulnerable\s*\.?\s*$', re.I)
_RE_CARDS = re.compile(rf'^(north|east|south|west|dummy)\'s\s+cards\s*:\s*(.*)$', re.I | re.S)
_RE_HAND = re.compile(r'^s\s*(.*?)\.\s*h\s*(.*?)\.\s*d\s*(.*?)\.\s*c\s*(.*?)\.\s*$', re.I | re.S)
_RE_CALL = re.compile(rf'^{_SEAT}\s+(passes|doubles|redoubles|bids\s+([1-7])\s*(nt|c|d|h|s))'
                      r'(\s+alert\.?.*)?\s*$', re.I | re.S)
_RE_PLAY = re.compile(rf'^{_SEAT}\s+plays\s+(\S+)\s*$', re.I)
_RE_LEAD = re.compile(r'^(north|east|south|west|dummy)\s+to\s+lead\s*$', re.I)
_RE_END = re.compile(r'^end\s+of\s+session\s*$', re.I)
_RE_ERROR = re.compile(r'^error\b', re.I)
_RE_CONNECT = re.compile(rf'^connecting\s+"(.*)"\s+as\s+{_SEAT}\s+using\s+protocol\s+version\s+'
                         r'(\d+)\s*$', re.I | re.S)
_RE_READY = re.compile(rf'^{_SEAT}\s+ready\s+(for|to)\s+(.*?)\s*$', re.I)

_VUL = {'neither': 'None', 'n/s': 'NS', 'e/w': 'EW', 'both': 'Both'}
_CARDISH = re.compile(r"(cards\s*:|\bplays\b|\bS\s+[-2-9TJQKA ]+\.\s*H\s)", re.I)


def parse_card_text(txt):
    """'2C' / 'C2' / 'tc' ... -> 'C2' style card, or None"""
    t = txt.strip().upper()
    if len(t) != 2:
        return None
    a, b = t[0], t[1]
    if a in rb.SUITS and b in rb.RANKS:
        return a + b
    if b in rb.SUITS and a in rb.RANKS:
        # ambiguous only if both readings are valid, which cannot happen: suit letters C D H S
        # are not rank characters
        return b + a
    return None


def parse_hand_text(txt):
    m = _RE_HAND.match(txt.strip())
    if not m:
        return None
    cards = []
    for suit, ranks in zip('SHDC', m.groups()):
        for r in ranks.split():
            if r == '-':
                continue
            r = r.upper()
            if r == '10':
                r = 'T'
            if len(r) != 1 or r not in rb.RANKS:
                return None
            cards.append(suit + r)
    return tuple(sorted(cards, key=rb.card_index))


def tokenize(line):
    """One protocol line -> token tuple.  Unknown lines -> ('UNKNOWN', line)."""
    m = _RE_CALL.match(line)
    if m:
        w = m.group(2).lower()
        if w == 'passes':
            call = 'Pass'
        elif w == 'doubles':
            call = 'X'
        elif w == 'redoubles':
            call = 'XX'
        else:
            call = m.group(3) + m.group(4).upper()
        return ('CALL', _seat(m.group(1)), call, bool(m.group(5)))
    m = _RE_PLAY.match(line)
    if m:
        c = parse_card_text(m.group(2))
        if c is not None:
            return ('CARD', _seat(m.group(1)), c)
        return ('BADCARD', _seat(m.group(1)), m.group(2))
    m = _RE_READY.match(line)
    if m:
        return ('READY', _seat(m.group(1)), re.sub(r'\s+', ' ', m.group(3).lower()))
    m = _RE_LEAD.match(line)
    if m:
        w = m.group(1).lower()
        return ('LEAD', 'Dummy' if w == 'dummy' else _seat(w))
    m = _RE_CARDS.match(line)
    if m:
        who = m.group(1).lower()
        hand = parse_hand_text(m.group(2))
        if hand is not None:
            if who == 'dummy':
                return ('DUMMY', hand)
            return ('CARDS', _seat(who), hand)
        return ('BADCARDS', who, m.group(2))
    m = _RE_HEADER.match(line)
    if m:
        return ('HEADER', int(m.group(1)), _seat(m.group(2)), _VUL[m.group(3).lower()])
    if _RE_START.match(line):
        return ('START',)
    if _RE_END.match(line):
        return ('END',)
    m = _RE_TEAMS.match(line)
    if m:
        return ('TEAMS', m.group(1), m.group(2))
    m = _RE_SEATED.match(line)
    if m:
        team = m.group(2)
        m2 = re.match(r'^\("(.*)"\)$', team, re.S)
        if m2:
            team = m2.group(1)
        return ('SEATED', _seat(m.group(1)), team)
    if _RE_ERROR.match(line):
        return ('ERROR', line)
    m = _RE_CONNECT.match(line)
    if m:
        return ('CONNECT', m.group(1), _seat(m.group(2)), int(m.group(3)))
    return ('UNKNOWN', line)


def card_bearing(line):
    return bool(_CARDISH.search(line))


def split_lines(data):
    """bytes -> (list of complete lines (str), remainder bytes).  Lines end with CR LF."""
    parts = data.split(b'\r\n')
    rest = parts.pop()
    return [p.decode('utf-8', 'replace') for p in parts], rest


# ---------------------------------------------------------------------------------------------
# expected session
# ---------------------------------------------------------------------------------------------

def expected_board_tokens(board_no, board, calls, cards):
    """Per seat, the sequence of tokens the table manager must send during one board, and the
    model's auction/play objects.  calls/cards: the decisions in order (cards: 52 or fewer; a
    prefix is allowed, the expectation is then a prefix too).

    Returns (tokens: {seat: [token,...]}, info dict).
    """
    toks = {s: [] for s in rb.SEATS}
    for s in rb.SEATS:
        toks[s].append(('START',))
        toks[s].append(('HEADER', board_no, board['dealer'], board['vul']))
        toks[s].append(('CARDS', s, tuple(sorted(board['deal'][s], key=rb.card_index))))
    a = rb.Auction(board['dealer'])
    for c in calls:
        seat = a.turn
        a.apply(c)
        for s in rb.SEATS:
            if s != seat:
                toks[s].append(('CALL', seat, c))
    info = {'auction': a, 'play': None, 'result': None}
    if not a.done:
        return toks, info
    res = a.result()
    info['result'] = res
    if res['declarer'] is None:
        return toks, info
    p = rb.Play(board['deal'], res['declarer'], res['denom'])
    info['play'] = p
    dummy_hand = tuple(sorted(board['deal'][p.dummy], key=rb.card_index))
    _lead_prompt(toks, p)
    for i, c in enumerate(cards):
        seat = p.turn
        actor = p.actor()
        p.apply(c)
        for s in rb.SEATS:
            if s != actor:
                toks[s].append(('CARD', seat, c))
        if i == 0:
            for s in rb.SEATS:
                if s != p.dummy:
                    toks[s].append(('DUMMY', dummy_hand))
        if not p.done and not p.trick:
            _lead_prompt(toks, p)
    return toks, info


def _lead_prompt(toks, p):
    if p.leader == p.dummy:
        toks[p.declarer].append(('LEAD', 'Dummy'))
    else:
        toks[p.leader].append(('LEAD', p.leader))
