"""S4: framing.  Two nodes on one simulated connection: a sender running the real
MessageInterface.send_message over messages built by the real builders, closing the connection at
a chosen byte offset; a receiver looping on the real MessageInterface.receive_message and applying
the peer's real parser to each line.  Evaluated: C19 (B) + the builder/parser pairs that a session
cannot reach (hands of fewer than 13 cards, all 38 calls x 4 seats, 52 cards x 2 notations)."""
from __future__ import annotations

import random

from model import refbridge as rb
from model import protocol as proto
from players import bundled as pb
from sim import core, net, seams
from sim.core import Sim, Fifo, Walk, Pct
from sim.net import SimSocket

ADDR = ('sim-host', 2001)
UNI = ['é', 'ü', 'Ж', '日本', '♠', 'ß', 'Ω', '🂡', '\t', ' ', '"', "'", '\\', '\x00', '\x7f', ' ']


def be_objs():
    mods = seams.install()
    return mods, mods['bridge_env']


def gen_messages(rng, n=None):
    """-> list of (text, kind, value) built by the real builders; value in model notation."""
    mods, be = be_objs()
    Server = mods['server'].Server
    Client = mods['client'].Client
    n = n if n is not None else rng.randint(1, 8)
    out = []
    for _ in range(n):
        k = rng.random()
        if k < 0.3:
            size = rng.choice((0, 1, 2, 5, 12, 13, 13, rng.randint(0, 13)))
            cards = rng.sample(rb.CARDS, size)
            if rng.random() < 0.3 and size:
                # force voids: keep one or two suits only
                keep = rng.sample(rb.SUITS, rng.randint(1, 2))
                cards = [c for c in cards if c[0] in keep]
            hand = {be.Card(rb.RANKS.index(c[1]) + 2, be.Suit(rb.SUITS.index(c[0]) + 1))
                    for c in cards}
            who = rng.choice(list(rb.SEAT_NAMES.values()) + ['Dummy'])
            text = f"{who}'s cards : " + Server.hand_to_str(hand)
            out.append((text, 'hand', (who, tuple(sorted(cards, key=rb.card_index)))))
        elif k < 0.55:
            call = rng.choice(rb.CALLS)
            seat = rng.choice(rb.SEATS)
            text = Client.create_bid_message(be.Bid(rb.CALLS.index(call) + 1), rb.SEAT_NAMES[seat])
            out.append((text, 'call', (seat, call)))
        elif k < 0.8:
            card = rng.choice(rb.CARDS)
            seat = rng.choice(rb.SEATS)
            c = be.Card(rb.RANKS.index(card[1]) + 2, be.Suit(rb.SUITS.index(card[0]) + 1))
            if rng.random() < 0.5:
                text = f'{rb.SEAT_NAMES[seat]} plays {Client.card_str(c)}'
            else:
                text = f'{rb.SEAT_NAMES[seat]} plays {c}'
            if rng.random() < 0.3:
                text = ''.join(ch.upper() if rng.random() < 0.5 else ch.lower() for ch in text)
            out.append((text, 'card', (seat, card)))
        elif k < 0.9:
            dealer = rng.choice(rb.SEATS)
            vul = rng.choice(rb.VULS)
            num = rng.randint(1, 999)
            from bridge_env import Vul
            text = (f'Board number {num}. Dealer {rb.SEAT_NAMES[dealer]}. '
                    f'{Server.convert_vul(Vul(rb.VULS.index(vul) + 1))} vulnerable.')
            out.append((text, 'header', (num, dealer, vul)))
        else:
            m = rng.randint(0, 30)
            text = ''.join(rng.choice(UNI + list('abc XYZ019.,:;-')) for _ in range(m))
            out.append((text, 'text', text))
    return out


def stream_of(msgs):
    return b''.join((m[0] + '\r\n').encode('utf-8') for m in msgs)


def expected_received(msgs, eof):
    """Messages whose CR LF lies completely within the first `eof` bytes."""
    out = []
    pos = 0
    for m in msgs:
        pos += len((m[0] + '\r\n').encode('utf-8'))
        if pos <= eof:
            out.append(m)
        else:
            break
    return out


def eof_class(msgs, eof):
    pos = 0
    for m in msgs:
        b = (m[0] + '\r\n').encode('utf-8')
        if eof == pos:
            return 'between'
        if pos < eof < pos + len(b):
            return 'after-cr' if eof == pos + len(b) - 1 else 'inside'
        pos += len(b)
    return 'at-end'


class FramingRun:
    def __init__(self, role='receiver'):
        self.received = []
        self.exc = None
        self.outcome = None
        self.sim = None
        self.netw = None
        self.overrun = False
        self.role = role
        self.cid = None


def run_framing(msgs, eof, sched, cuts=None, other=None, greet=False):
    """cuts: None -> the sender uses the real send_message per message (network config chunks);
    otherwise a sorted list of absolute byte positions at which the sender splits its writes.

    other: a second connection in the same process, {'msgs', 'eof', 'mode'}: mode 'before' -- it is
    opened, fed and closed (typically in the middle of a message) before the main one starts;
    mode 'concurrent' -- both connections are live and their two receivers and two senders are
    interleaved by the scheduler.  Each connection has its own MessageInterface, as each
    PlayerThread and each Client has.  Returns the main FramingRun; the other one is `.other`."""
    mods, be = be_objs()
    MI = mods['socket_interface'].MessageInterface
    srng = random.Random(f"sched/{sched.get('seed', 0)}")
    nrng = random.Random(f"net/{sched.get('seed', 0)}")
    st = sched.get('strategy', 'fifo')
    policy = Fifo() if st == 'fifo' else Walk(srng, sched.get('p_event', 0.3)) if st == 'walk' \
        else Pct(srng, sched.get('depth', 2), sched.get('horizon', 300))
    sim = Sim(policy, max_decisions=200_000, spin_limit=sched.get('spin_limit', 1000))
    ncfg = sched.get('net', {})
    netw = net.Network(net.NetConfig(nrng, ncfg.get('chunk', 'whole'), ncfg.get('latency', 'const'),
                                     short_send=ncfg.get('short_send', 0.0),
                                     rst=ncfg.get('rst', False)))
    core.set_current(sim)
    net.set_network(netw)
    from sim import prims

    def lane(fr, msgs, eof, cuts, addr, suffix, start_gate, done_gate):
        stream = stream_of(msgs)
        eof = min(eof, len(stream))
        nexp = len(expected_received(msgs, eof))

        def receiver():
            srv = SimSocket()
            srv.bind(addr)
            srv.listen(1)
            conn, _ = srv.accept()
            fr.cid = conn._conn.cid
            mi = MI(connection_socket=conn)
            if greet:
                # a line the peer never reads: if the peer then closes, TCP resets the connection
                # (net.rst) and the receiver meets ConnectionResetError instead of end-of-stream
                mi.send_message('Bridge table manager ready')
            while True:
                try:
                    m = mi.receive_message()
                except Exception as e:
                    fr.exc = e
                    break
                fr.received.append(m)
                if len(fr.received) > nexp + 3:
                    fr.overrun = True
                    break
            conn.close()
            srv.close()
            if done_gate is not None:
                done_gate.set()

        def sender():
            if start_gate is not None:
                start_gate.wait()
            sk = SimSocket()
            sk.connect(addr)
            mi = MI(connection_socket=sk)
            if cuts is None:
                pos = 0
                for m in msgs:
                    b = (m[0] + '\r\n').encode('utf-8')
                    if pos + len(b) <= eof:
                        mi.send_message(m[0])
                        pos += len(b)
                    else:
                        if eof > pos:
                            sk.sendall(b[:eof - pos])
                        break
            else:
                p = 0
                for c in list(cuts) + [eof]:
                    c = min(c, eof)
                    if c > p:
                        sk.sendall(stream[p:c])
                        p = c
            if greet:
                # look at (but never read) what the other end said, so that it is in this end's
                # receive buffer when the connection is closed: the close is then abortive
                import socket as _so
                try:
                    sk.recv(1, _so.MSG_PEEK)
                except OSError:
                    pass
            sk.close()

        sim.spawn(receiver, 'receiver' + suffix)
        sim.spawn(sender, 'sender' + suffix)

    fr = FramingRun('receiver')
    fr.sim = sim
    fr.netw = netw
    fr.other = None
    gate = None
    if other is not None:
        fo = FramingRun('receiver:other')
        fo.sim = sim
        fo.netw = netw
        fr.other = fo
        if other.get('mode') == 'before':
            gate = prims.SimEvent()
        lane(fo, other['msgs'], other['eof'], None, (ADDR[0], ADDR[1] + 1), ':other', None, gate)
    lane(fr, msgs, eof, cuts, ADDR, '', gate, None)
    try:
        fr.outcome = sim.run()
    finally:
        core.set_current(None)
        net.set_network(None)
    if fr.other is not None:
        fr.other.outcome = fr.outcome
    return fr


def check_framing(fr, msgs, eof, findings, plan, cov):
    sim = fr.sim
    exp = expected_received(msgs, eof)
    rt = next(t for t in sim.threads if t.role == fr.role)

    def add(oracle, msg, key=None):
        findings.append({'prop': 'C19', 'oracle': oracle, 'key': key or oracle, 'msg': msg,
                         'plan': plan, 'outcome': fr.outcome, 'digest': sim.digest(),
                         'blocked': [list(b) for b in sim.blocked_final[:4]]})

    cls = eof_class(msgs, eof)
    if rt.spin:
        add('eof-spin', f'receive_message read end-of-stream {sim.spin_limit}+ times in a row '
                        f'instead of raising (EOF {cls}, after {len(fr.received)} message(s))')
        return
    if fr.outcome == 'deadlock' and not rt.finished:
        add('eof-block', f'receiver blocked forever: {sim.blocked_final}')
        return
    if fr.outcome != 'finished':
        add('framing-outcome', f'run ended {fr.outcome}: {sim.exceptions()[:1]}')
        return
    got = fr.received
    want = [m[0] for m in exp]
    if got != want:
        add('framing-mismatch', f'received {got[:4]!r}..., fully delivered {want[:4]!r}... '
                                f'(EOF {cls} at byte {eof})',
            key='framing-mismatch:' + ('truncated' if len(got) > len(want) else 'lost'))
        return
    if fr.exc is None:
        add('no-error-on-eof', f'receiver did not stop with an error after the peer closed '
                               f'(EOF {cls})')
        return
    # the bytes the real send_message put on the wire
    sent = b''.join(s[4] for s in fr.netw.sends if s[3] == 'c2s' and s[2] == fr.cid)
    if sent != stream_of(msgs)[:min(eof, len(stream_of(msgs)))]:
        add('send-bytes', f'send_message put {sent[:80]!r} on the wire')
    # meaning: apply the peer's real parser to each received line
    mods, be = be_objs()
    MI = mods['socket_interface'].MessageInterface
    Client = mods['client'].Client
    for line, (text, kind, val) in zip(got, exp):
        try:
            if kind == 'call':
                seat, call = val
                r = pb.call_of(MI.parse_bid(line, rb.SEAT_NAMES[seat]))
                cov['calls'].add((seat, call))
                if r != call:
                    add('call-meaning', f'parse_bid({line!r}) -> {r}, built from {call}')
            elif kind == 'card':
                seat, card = val
                r = pb.card_of(MI.parse_card(line, be.Player(rb.SEATS.index(seat) + 1)))
                cov['cards'].add((seat, card, 'SR' if line.split()[-1][0].upper() in rb.SUITS
                                  else 'RS'))
                if r != card:
                    add('card-meaning', f'parse_card({line!r}) -> {r}, built from {card}')
            elif kind == 'hand':
                who, cards = val
                hs = Client.parse_cards(line, who)
                hset, vec = Client.parse_hand(hs)
                r = tuple(sorted((pb.card_of(c) for c in hset), key=rb.card_index))
                cov['hand_sizes'].add(len(cards))
                for su in rb.SUITS:
                    if not any(c[0] == su for c in cards):
                        cov['voids'].add(su)
                if r != cards or tuple(vec) != tuple(1 if c in cards else 0 for c in rb.CARDS):
                    add('hand-meaning', f'parse_hand({line!r}) -> {r}, built from {cards}')
            elif kind == 'header':
                num, dealer, vul = val
                r = Client.parse_board(line)
                cov['headers'].add((dealer, vul))
                if (r[0], pb.seat_of(r[1]), rb.VULS[r[2].value - 1]) != (num, dealer, vul):
                    add('header-meaning', f'parse_board({line!r}) -> {r}')
        except Exception as e:
            add(f'{kind}-meaning', f'parser raised {type(e).__name__}: {e} on {line!r} built from '
                                   f'{val}', key=f'{kind}-meaning:raise')


def new_stats():
    from scenarios import s1
    return s1.new_stats()


def _account(st, fr, sched, eof_cls, label):
    sim = fr.sim
    st['runs'] += 1
    st['decisions'] += sim.decisions
    st['thread_steps'] += sim.thread_steps
    st['events_fired'] += sim.events_fired
    st['sim_time'] += sim.now
    st['outcomes'][fr.outcome] = st['outcomes'].get(fr.outcome, 0) + 1
    st['strategies'][label] = st['strategies'].get(label, 0) + 1
    st['faults']['eof.' + eof_cls] = st['faults'].get('eof.' + eof_cls, 0) + 1
    nc = sched.get('net', {})
    if nc.get('chunk', 'whole') != 'whole':
        st['faults']['chunking.' + nc['chunk']] = st['faults'].get('chunking.' + nc['chunk'], 0) + 1
    for k, v in sim.fault_counts.items():
        st['faults'][k] = st['faults'].get(k, 0) + v
    if isinstance(fr.exc, ConnectionResetError):
        st['faults']['eof.as-reset'] = st['faults'].get('eof.as-reset', 0) + 1
    # digest of the receiver's view: sequence of recv outcomes
    import hashlib
    h = hashlib.sha1()
    for e in sim.log:
        if e[2] == 'receiver':
            h.update(repr((e[3], e[5])).encode())
    h.update(eof_cls.encode())
    h.update(repr(len(fr.received)).encode())
    st['digests'][h.hexdigest()[:16]] = True
    from scenarios import s1
    if s1.WANT_RUN_DIGESTS[0]:
        st.setdefault('run_digests', []).append(sim.digest())


def _plan_msgs(msgs):
    return [list(m[:2]) + [_j(m[2])] for m in msgs]


def exec_plan(plan, label):
    """One framing run (isolated child): run, check, account.  Plain data in and out."""
    msgs = [(m[0], m[1], _t(m[2])) for m in plan['msgs']]
    other = plan.get('other')
    o = None
    if other is not None:
        o = {'msgs': [(m[0], m[1], _t(m[2])) for m in other['msgs']], 'eof': other['eof'],
             'mode': other['mode']}
    fr = run_framing(msgs, plan['eof'], plan['sched'], cuts=plan.get('cuts'), other=o,
                     greet=bool(plan.get('greet')))
    findings = []
    cov = {'calls': set(), 'cards': set(), 'headers': set(), 'voids': set(), 'hand_sizes': set()}
    check_framing(fr, msgs, plan['eof'], findings, plan, cov)
    if fr.other is not None:
        n0 = len(findings)
        check_framing(fr.other, o['msgs'], o['eof'], findings, plan, cov)
        for f in findings[n0:]:
            f['msg'] = '[the other connection] ' + f['msg']
    st = new_stats()
    _account(st, fr, plan['sched'], eof_class(msgs, plan['eof']), label)
    if o is not None:
        k = 'second_connection.' + o['mode']
        st['faults'][k] = st['faults'].get(k, 0) + 1
    for k in cov:
        st['cov'][k] = sorted(map(list, cov[k])) if k in ('calls', 'cards', 'headers') else \
            sorted(cov[k])
    total = len(stream_of(msgs))
    sample = {'messages': [m[0] for m in msgs][:3], 'eof_at_byte': plan['eof'], 'of': total,
              'eof_position': eof_class(msgs, plan['eof']), 'net': plan['sched'].get('net'),
              'received': len(fr.received),
              'ended_with': type(fr.exc).__name__ if fr.exc else None,
              'second_connection': None if o is None else
              {'mode': o['mode'], 'eof_at_byte': o['eof'],
               'eof_position': eof_class(o['msgs'], o['eof'])}}
    return {'st': st, 'findings': findings, 'sample': sample,
            'summary': {'outcome': fr.outcome, 'digest': fr.sim.digest(),
                        'decisions': fr.sim.decisions}}


def run_task(task):
    from harness import isolate
    from scenarios import s1
    rng = random.Random(f's4/{task["seed"]}')
    st = new_stats()
    findings = []
    samples = []

    def one(plan, label):
        r = isolate.call(exec_plan, plan, label)
        s1.merge_stats(st, r['st'])
        findings.extend(r['findings'])
        return r

    if task['type'] == 's4':
        for j in range(task.get('n', 12)):
            msgs = gen_messages(rng)
            total = len(stream_of(msgs))
            r = rng.random()
            eof = total if r < 0.3 else rng.randint(0, total)
            sched = {'strategy': rng.choice(('fifo', 'walk', 'walk', 'pct')),
                     'seed': rng.randrange(1 << 40), 'p_event': rng.choice((0.05, 0.3, 0.6)),
                     'depth': rng.choice((1, 2, 3)),
                     'net': {'chunk': rng.choice(('whole', 'few', 'crlf', 'bytes')),
                             'latency': rng.choice(('const', 'uniform', 'heavy', 'outage')),
                             'short_send': rng.choice((0.0, 0.0, 0.3, 0.8))}}
            plan = {'family': 'S4', 'msgs': _plan_msgs(msgs), 'eof': eof, 'sched': sched,
                    'cuts': None}
            if rng.random() < 0.3:
                # the receiving end has said something the peer never reads: the peer's close is
                # then abortive (RST) and the reader meets ConnectionResetError, not end-of-stream
                plan['greet'] = True
                sched['net']['rst'] = True
            r = rng.random()
            if r < 0.35:
                # a second connection in the same process: one that was closed (mostly in the
                # middle of a message) before this one starts, or one that is live at the same
                # time -- every connection has its own receiver state
                om = gen_messages(rng, rng.randint(1, 4))
                ot = len(stream_of(om))
                mode = 'before' if r < 0.17 else 'concurrent'
                oe = rng.randint(0, ot) if (mode == 'before' or rng.random() < 0.5) else ot
                plan['other'] = {'msgs': _plan_msgs(om), 'eof': oe, 'mode': mode}
            res = one(plan, 's4:' + sched['strategy'])
            if len(samples) < 2:
                samples.append(res['sample'])
    else:
        # enumeration: one message list; every EOF offset x {whole, bytes, every single cut}
        msgs = gen_messages(rng, rng.randint(1, 4))
        stream = stream_of(msgs)
        total = len(stream)
        nruns = 0
        sched0 = {'strategy': 'fifo', 'seed': 0, 'net': {'chunk': 'whole', 'latency': 'const'}}
        for eof in range(total + 1):
            variants = [('whole', None, sched0),
                        ('bytes', None, {'strategy': 'walk', 'seed': rng.randrange(1 << 40),
                                         'p_event': 0.3,
                                         'net': {'chunk': 'bytes', 'latency': 'uniform'}})]
            # the close is abortive (the receiving end said something the peer never read)
            variants.append(('reset', None, {'strategy': 'fifo', 'seed': 0,
                                             'net': {'chunk': 'whole', 'latency': 'const',
                                                     'rst': True}}))
            for c in range(1, eof):
                variants.append((f'cut@{c}', [c], sched0))
            for name, cuts, sched in variants:
                plan = {'family': 'S4', 'msgs': _plan_msgs(msgs), 'eof': eof, 'sched': sched,
                        'cuts': cuts}
                if name == 'reset':
                    plan['greet'] = True
                one(plan, 's4e:' + name.split('@')[0])
                nruns += 1
                if len(findings) > 40:
                    break
        st['exhaustive'] = {'messages': len(msgs), 'stream_bytes': total,
                            'eof_offsets': total + 1, 'runs': nruns,
                            'what': 'every EOF offset x {unsplit, byte-wise, abortive close (RST), every single cut}'}
        samples.append({'messages': [m[0] for m in msgs], 'stream_bytes': total, 'runs': nruns})
    # keep one finding per key
    seen = set()
    keep = []
    for f in findings:
        if f['key'] not in seen:
            seen.add(f['key'])
            keep.append(f)
    return {'stats': st, 'findings': keep[:10], 'samples': samples, 'nfindings': len(findings)}


def _j(v):
    if isinstance(v, tuple):
        return [_j(x) for x in v]
    return v


def _t(v):
    if isinstance(v, list):
        return tuple(_t(x) for x in v)
    return v


def run_plan(plan, prop):
    r = exec_plan(plan, 'replay')
    return r['findings'], r['summary']
