"""Run one simulated table-manager session (families S1/S2/S3): the real Server, its real
PlayerThreads, four or more simulated players, under one schedule descriptor."""
from __future__ import annotations

import os
import pathlib
import random
import shutil
import tempfile

from model import refbridge as rb
from sim import core, net, prims, seams
from sim.core import Sim, Stall, Interrupt, Fifo, Walk, Pct, FixedOrder
from players.scripted import ScriptedPlayer, Style
from players.bundled import BundledPlayer

ADDR = ('sim-host', 2000)
PRE_ADDR = ('sim-host', 1999)      # the prelude session's table manager listens here


def make_policy(sched, rng):
    st = sched.get('strategy', 'fifo')
    if st == 'fifo':
        return Fifo()
    if st == 'walk':
        return Walk(rng, sched.get('p_event', 0.05))
    if st == 'pct':
        return Pct(rng, sched.get('depth', 2), sched.get('horizon', 2000))
    if st == 'order':
        return FixedOrder(sched['order'])
    raise ValueError(st)


def build_board_settings(mods, boards):
    """Real BoardSetting objects, built from integers through the enum/dataclass constructors
    (never through the converters under test)."""
    be = mods['bridge_env']
    from bridge_env.data_handler.abstract_classes import BoardSetting
    out = []
    for i, b in enumerate(boards):
        if b.get('same_object'):
            core = {k: v for k, v in b.items() if k != 'same_object'}
            j = next((j for j in range(i) if {k: v for k, v in boards[j].items()
                                              if k != 'same_object'} == core), None)
            if j is not None:
                out.append(out[j])
                continue
        hands = {}
        for s in rb.SEATS:
            hands[s] = {be.Card(rb.RANKS.index(c[1]) + 2, be.Suit(rb.SUITS.index(c[0]) + 1))
                        for c in b['deal'][s]}
        dda = None
        if b.get('dda') is not None:
            dda = {be.Player(rb.SEATS.index(s) + 1):
                   {be.Suit(rb.DENOMS.index(d) + 1): n for d, n in b['dda'][s].items()}
                   for s in rb.SEATS}
        out.append(BoardSetting(
            hands=be.Hands(north_hand=hands['N'], east_hand=hands['E'], south_hand=hands['S'],
                           west_hand=hands['W']),
            dealer=be.Player(rb.SEATS.index(b['dealer']) + 1),
            vul=be.Vul(rb.VULS.index(b['vul']) + 1),
            board_id=b['board_id'],
            dda=dda))
    return out


class SessionRun:
    """Everything one run produced, for the oracles."""

    def __init__(self):
        self.scn = None
        self.sched = None
        self.sim = None
        self.netw = None
        self.players = []
        self.outcome = None
        self.log_text = None
        self.log_exists = False
        self.server_exc = None
        self.exceptions = []
        self.digest = None
        self.board_settings = None
        self.workdir = None
        self.prelude_exc = None
        self.server_role = 'server'


def default_sched():
    return {'strategy': 'fifo', 'seed': 0, 'net': {'chunk': 'whole', 'latency': 'const'},
            'stalls': []}


def make_player(scn, seat, spec, role, overrides=None, vanish=None, team=None, version=18,
                on_verdict=None, pre_connect=None, post_connect=None, linger_gate=None,
                addr=None, impatient=False):
    addr = addr or ADDR
    team = team if team is not None else scn['teams'][rb.side(seat)]
    kind = spec['kind']
    if kind == 'scripted':
        return ScriptedPlayer(seat, team, scn['script'], Style.from_json(spec['style']),
                              spec['seed'], addr, version=version, overrides=overrides,
                              name=role, on_verdict=on_verdict, vanish=vanish,
                              pre_connect=pre_connect, post_connect=post_connect,
                              linger_gate=linger_gate, impatient=impatient,
                              half_close=bool(spec.get('half_close')))
    pk = {'bundled': 'script'}.get(kind, kind)
    return BundledPlayer(seat, team, scn['script'], pk, addr, name=role, on_verdict=on_verdict,
                         pre_connect=pre_connect, post_connect=post_connect, version=version)


def run_session(scn, sched, keep_sim=True, max_decisions=None, extra_setup=None):
    """Run scenario `scn` under schedule `sched`.  Returns a SessionRun."""
    mods = seams.install()
    server_mod = mods['server']
    srng = random.Random(f"sched/{sched.get('seed', 0)}")
    nrng = random.Random(f"net/{sched.get('seed', 0)}")
    policy = make_policy(sched, srng)
    stalls = [Stall.from_json(d) for d in sched.get('stalls', ())]
    interrupts = []
    it = sched.get('interrupt')
    if it:
        interrupts.append(Interrupt(it['role'], it.get('index'), KeyboardInterrupt,
                                    kind=it.get('kind'), n=it.get('n'), anchor=it.get('anchor')))
    sim = Sim(policy, stalls=stalls, interrupts=interrupts,
              max_decisions=max_decisions or sched.get('max_decisions', 400_000),
              max_time=sched.get('max_time', 1e7),
              steps_after_fault=sched.get('steps_after_fault'),
              interrupt_on_hang='server' if sched.get('interrupt_on_hang') else None)
    if sched.get('max_time'):
        sim.hang_deadline = 0.6 * sched['max_time']
    import os as _os
    sim.trace_root = _os.path.join(_os.path.dirname(_os.path.abspath(
        mods['bridge_env'].__file__)), '')
    ncfg = sched.get('net', {})
    netw = net.Network(net.NetConfig(nrng, ncfg.get('chunk', 'whole'),
                                     ncfg.get('latency', 'const'),
                                     ncfg.get('base_latency', 0.001),
                                     ncfg.get('short_send', 0.0),
                                     ncfg.get('rst', False)))
    core.set_current(sim)
    net.set_network(netw)
    mods['random'].reseed(scn.get('decision_seed', 0))

    run = SessionRun()
    run.scn = scn
    run.sched = sched
    run.sim = sim
    run.netw = netw
    workdir = tempfile.mkdtemp(prefix='bevsim-', dir=os.environ.get('VERIF_SCRATCH') or None)
    run.workdir = workdir
    out_path = pathlib.Path(workdir) / 'log.json'
    stale = None
    if sched.get('stale_log'):
        # the output path already holds the (much longer) log of an earlier session, as the
        # default `output.json` of a table manager that is started again does
        stale = STALE_LOG
        with open(out_path, 'w', encoding='ascii') as f:
            f.write(stale)
        sim.count_fault('env.stale_log')
    settings = build_board_settings(mods, scn['boards'])
    run.board_settings = settings

    npt = [0]

    naux = [0]

    def role_for_thread(th):
        # connection threads are pt:<accept order>; anything else the tree under test starts
        # (a writer thread, a pool worker, a timer) is aux:<n>
        if isinstance(th, server_mod.PlayerThread):
            if scn.get('prelude') and getattr(run, 'server', None) is None:
                # a connection thread of the prelude session: not judged
                k = naux[0]
                naux[0] += 1
                return f'prept:{k}'
            k = npt[0]
            npt[0] += 1
            return f'pt:{k}'
        k = naux[0]
        naux[0] += 1
        return f'aux:{k}'
    sim.role_for_thread = role_for_thread

    enc = sched.get('fs_encoding')
    if enc:
        import builtins

        def open_with_locale(file, mode='r', *a, **k):
            if 'b' not in mode and 'encoding' not in k and len(a) < 2:
                k['encoding'] = enc
            return builtins.open(file, mode, *a, **k)
        server_mod.open = open_with_locale
        st_counts = sim.fault_counts
        st_counts['env.fs_encoding.' + enc] = 1
    elif 'open' in vars(server_mod):
        del server_mod.open

    prelude = scn.get('prelude')

    def server_main():
        if prelude:
            # a tournament driver: one table after the other in the same interpreter; whatever
            # becomes of the first table, the second is started
            try:
                with server_mod.Server(ip_address=PRE_ADDR[0], port=PRE_ADDR[1],
                                       output_file_path=pathlib.Path(workdir) / 'prelude.json',
                                       board_settings=build_board_settings(
                                           mods, prelude['boards'])) as pre_server:
                    pre_server.run()
            except BaseException as e:  # noqa
                if isinstance(e, (core.SimKill, core.SimSpin)):
                    raise
                run.prelude_exc = f'{type(e).__name__}: {e}'
            sim.count_fault('prelude.' + ((prelude.get('abort') or {}).get('kind') or 'completed'))
            from sim import parserec as _pr
            _pr.reset()
            if not sched.get('interrupt_on_hang'):
                # the operator who would have interrupted a hung prelude table has no business
                # with the session that follows (found by the multi-seed soak: a prelude that
                # never hung left the interrupt armed, and it fired -- by its patience deadline --
                # in the middle of the judged session)
                sim.interrupt_on_hang = None
        with server_mod.Server(ip_address=ADDR[0], port=ADDR[1], output_file_path=out_path,
                               board_settings=settings) as server:
            run.server = server
            server.run()

    # the table manager is one OS process (main thread + the threads it starts), every player
    # another; when a process exits its daemon threads die and the OS closes its sockets
    sim.spawn(server_main, 'server', proc='server')
    sim.on_process_exit.append(netw.process_exit)

    if prelude:
        pab = prelude.get('abort') or {}
        if pab.get('kind') in ('leave', 'partial'):
            sim.interrupt_on_hang = 'server'
        for seat in rb.SEATS:
            if pab.get('kind') == 'partial' and seat not in pab['seats']:
                continue
            ov = va = None
            if pab.get('seat') == seat and pab.get('kind') == 'offend':
                ov = {(pab['board'], pab['phase'], pab['index']): pab['raw']}
            if pab.get('seat') == seat and pab.get('kind') == 'leave':
                va = (pab['board'], pab['phase'], pab['index'], 'any')
            pp = make_player(prelude, seat, prelude['seats'][seat], f'pre:{seat}', overrides=ov,
                             vanish=va, addr=PRE_ADDR)
            sim.spawn(pp.run, pp.name, proc=pp.name)
    fam = scn.get('family', 'S1')
    abort = scn.get('abort') or {}
    if fam == 'S2':
        from scenarios import admission
        admission.spawn_requesters(sim, scn, run)
    else:
        for seat in rb.SEATS:
            spec = scn['seats'][seat]
            overrides = None
            vanish = None
            if abort.get('seat') == seat and abort.get('kind') in ('offend',):
                overrides = {(abort['board'], abort['phase'], abort['index']): abort['raw']}
                if abort.get('crash'):
                    overrides[('crash',)] = True
                    sim.count_fault('offender.crash')
            if abort.get('seat') == seat and abort.get('kind') == 'vanish':
                vanish = (abort['board'], abort['phase'], abort['index'])
            if abort.get('seat') == seat and abort.get('kind') == 'leave':
                vanish = (abort['board'], abort['phase'], abort['index'], 'any')
            pl = make_player(scn, seat, spec, f'client:{seat}', overrides=overrides, vanish=vanish)
            run.players.append(pl)
            sim.spawn(pl.run, pl.name, proc=pl.name)
    if extra_setup:
        extra_setup(run)

    try:
        run.outcome = sim.run()
    finally:
        core.set_current(None)
        net.set_network(None)
    run.exceptions = sim.exceptions()
    for role, tn, msg, tb in run.exceptions:
        if role == 'server':
            run.server_exc = (tn, msg, tb)
    try:
        with open(out_path, 'r', encoding=enc or 'utf-8') as f:
            run.log_text = f.read()
        run.log_exists = True
        if stale is not None and run.log_text == stale:
            # the table manager never opened its log: what is there is the older file, untouched
            run.log_text = None
            run.log_exists = False
    except FileNotFoundError:
        run.log_text = None
    except UnicodeDecodeError:
        with open(out_path, 'rb') as f:
            run.log_text = f.read().decode('utf-8', 'replace')
        run.log_exists = True
    run.digest = sim.digest()
    return run


def _stale_log():
    rec = ('{"players": {"N": "old", "E": "older", "S": "old", "W": "older"}, "board_id": "stale-%d", '
           '"dealer": "N", "deal": {"N": [], "E": [], "S": [], "W": []}, "vulnerability": "None", '
           '"bid_history": ["Pass", "Pass", "Pass", "Pass"], "contract": "Passed_out", '
           '"declarer": null, "play_history": null, "taken_trick": null, "score_type": "IMP", '
           '"scores": {"NS": 0, "EW": 0}}')
    return '{"logs": [\n' + ',\n'.join(rec % i for i in range(260)) + '\n]}'


STALE_LOG = _stale_log()


def cleanup(run):
    if run.workdir:
        shutil.rmtree(run.workdir, ignore_errors=True)
        run.workdir = None
