"""C09 thorough: single-stall enumeration.  For a small scenario the fault-free run is recorded,
then one run is made for EVERY (thread, synchronisation-operation index) of it with that thread
frozen there until everything else has quiesced (the limit case of "however long any one thread
is delayed"), under a fixed base priority order.  Gives a depth-1 guarantee relative to the base
orders: no single arbitrarily long delay of one thread at a synchronisation point of these
sessions can hang them."""
from __future__ import annotations

import random

from model import refbridge as rb
from oracles import session_oracle as so
from oracles import probes as pr
from scenarios import gen, session, s1
from sim import parserec

CLIENTS = ['client:N', 'client:E', 'client:S', 'client:W']
PTS = ['pt:0', 'pt:1', 'pt:2', 'pt:3']

ORDERS = {
    'main-first': ['server'] + PTS + CLIENTS,
    'main-last': CLIENTS + PTS + ['server'],
    'events-first-main-last': ['EVENT'] + CLIENTS + PTS + ['server'],
    'seats-first': PTS + ['server'] + CLIENTS,
    'events-first-main-first': ['EVENT', 'server'] + PTS + CLIENTS,
}

SHAPES = [
    # (boards, auction styles, table)
    (1, ['allpass'], 'scripted'),
    (2, ['allpass', 'allpass'], 'bundled'),
    (1, ['short'], 'bundled'),
    (2, ['allpass', 'short'], 'scripted'),
    (2, ['short', 'allpass'], 'bundled'),
    (3, ['allpass', 'allpass', 'allpass'], 'scripted'),
]


def make_scenario(rng, shape):
    nb, styles, table = shape
    scn = gen.gen_s1(rng, nboards=nb, table=table)
    scn['prelude'] = None
    # force a bid on 'short' boards so that they are played
    script = []
    for b, st in zip(scn['boards'], styles):
        if st == 'allpass':
            script.append({'calls': ['Pass'] * 4, 'cards': [], 'style': 'allpass'})
        else:
            a = rb.Auction(b['dealer'])
            calls = [rng.choice(rb.BIDS[:20]), 'Pass', 'Pass', 'Pass']
            for c in calls:
                a.apply(c)
            res = a.result()
            cards, _ = gen.gen_play(rng, b['deal'], res['declarer'], res['denom'])
            script.append({'calls': calls, 'cards': cards, 'style': 'short'})
    scn['script'] = script
    scn['decision_seed'] = rng.randrange(1 << 40)
    for s in rb.SEATS:
        scn['seats'][s]['style'] = gen.gen_style(None, plain=True)
    return scn


def run_task(task):
    props = tuple(task['props'])
    v = task['variant']
    rng = random.Random(f'sweep/{task["seed"]}')
    shape = SHAPES[v % len(SHAPES)]
    names = sorted(ORDERS)
    oname = names[(v // len(SHAPES)) % (len(names) + 1)] if (v // len(SHAPES)) % (len(names) + 1) \
        < len(names) else 'random'
    if oname == 'random':
        order = PTS + CLIENTS + ['server', 'EVENT']
        rng.shuffle(order)
    else:
        order = ORDERS[oname]
    scn = make_scenario(rng, shape)
    st = s1.new_stats()
    findings = []
    base = {'strategy': 'order', 'order': order, 'seed': 0,
            'net': {'chunk': 'whole', 'latency': 'const'}, 'stalls': [], 'label': 'order:' + oname}
    from harness import isolate
    r = isolate.call(s1.exec_run, scn, base, props, base['label'])
    s1.merge_stats(st, r['st'])
    info = r['info']
    findings.extend(r['findings'])
    points = 0
    # midcode variant: the thread is frozen k source lines PAST each of its synchronisation
    # operations (inside code that contains no synchronisation), for the table manager's own
    # threads; otherwise on the operation itself, for every thread
    midcode = bool(task.get('midcode'))
    played = any(a != 'allpass' for a in shape[1])
    lines_list = ((2, 5) if played else (1, 2, 3, 4, 6, 9)) if midcode else (None,)
    if not findings:
        for role in info['roles']:
            if midcode and not (role == 'server' or role.startswith('pt:') or
                                role.startswith('aux:')):
                continue
            for idx in range(info['nstable'].get(role, 0)):
                for lines in lines_list:
                    sched = dict(base)
                    sched['stalls'] = [{'role': role, 'index': idx, 'duration': None,
                                        'after_kind': None, 'after_n': None, 'after_obj': None,
                                        'lines': lines}]
                    s1.set_budgets(sched, info)
                    r = isolate.call(s1.exec_run, scn, sched, props,
                                     base['label'] + ('+midcode' if midcode else '+stall'))
                    s1.merge_stats(st, r['st'])
                    points += 1
                    findings.extend(r['findings'])
                    if len(findings) > 30:
                        break
                if len(findings) > 30:
                    break
            if len(findings) > 30:
                break
    st['exhaustive'] = {'shape': {'boards': shape[0], 'auctions': shape[1], 'table': shape[2]},
                        'base_order': oname, 'order': order, 'stall_points_enumerated': points,
                        'threads': len(info['roles']), 'midcode': midcode,
                        'what': ('every (table-manager thread, synchronisation operation, k in '
                                 f'{list(lines_list)}) of the fault-free run: the thread frozen k source '
                                 'lines past that operation until all else has quiesced')
                        if midcode else
                        ('every (thread, synchronisation operation) of the fault-free run, '
                         'that thread frozen there until all else has quiesced')}
    sample = {'sweep': st['exhaustive']['shape'], 'base_order': oname, 'stall_points': points}
    seen = set()
    keep = []
    for f in findings:
        if f['key'] not in seen:
            seen.add(f['key'])
            keep.append(f)
    return {'stats': st, 'findings': keep[:10], 'samples': [sample], 'nfindings': len(findings)}
