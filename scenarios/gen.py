"""Scenario generation: boards, teams, scripted auctions and plays, seat kinds and styles.

A scenario is a plain JSON-able dict -- explicit, so that a replay file is self-contained.
Everything here is driven by one random.Random handed in by the caller.
"""
from __future__ import annotations

import random

from model import refbridge as rb

TEAM_ALPHABET = 'abcdefghijklmnopqrstuvwxyzABCDEFGHIJKLMNOPQRSTUVWXYZ0123456789 .,-_/()\'+#:'
UNICODE_BITS = ['é', 'ü', 'Ж', '日本', '橋', '♠', 'ß', 'ñ', 'Ω', '🂡',
                # not stable under Unicode normalisation: a name is a sequence of code points and
                # must come back as exactly that sequence
                'e\u0308', 'A\u030a', '\u212b', '\u2126', '\u1100\u1161', '\uf900', '\ufb01',
                '\u00b5', '\u1e9b\u0323']


def gen_team_name(rng, forbid=()):
    while True:
        k = rng.random()
        if k < 0.4:
            name = rng.choice(['teamNS', 'teamEW', 'Robots', 'Wbridge5', 'Blue Chip', 'Q-Plus',
                               'Jack', 'Micro Bridge', 'Bridge Baron', 'a', 'X'])
        elif k < 0.8:
            n = rng.randint(1, 12)
            name = ''.join(rng.choice(TEAM_ALPHABET) for _ in range(n)).strip() or 'T'
        else:
            n = rng.randint(1, 4)
            name = ''.join(rng.choice(UNICODE_BITS + list('abc XY')) for _ in range(n)).strip() \
                or 'Ü'
        if rng.random() < 0.02 and '' not in forbid:
            return ''           # the empty name is a name too
        if rng.random() < 0.04:
            # a very long name (the protocol sets no limit)
            name = ''.join(rng.choice(TEAM_ALPHABET) for _ in range(rng.randint(60, 300))).strip() \
                or 'L' * 80
        if rng.random() < 0.12:
            # blanks are part of a quoted name: runs of spaces, a tab, leading / trailing blanks
            # must come back exactly as announced
            w = rng.choice(('double', 'tab', 'trail', 'lead', 'both'))
            if w == 'double':
                name = name + '  ' + rng.choice('AbZ9')
            elif w == 'tab':
                name = name + '\t' + rng.choice('AbZ9')
            elif w == 'trail':
                name = name + ' ' * rng.randint(1, 3)
            elif w == 'lead':
                name = ' ' * rng.randint(1, 2) + name
            else:
                name = ' ' + name + '  '
        if name not in forbid:
            return name


def gen_board_id(rng, i):
    k = rng.random()
    if k < 0.5:
        return str(i + 1)
    if k < 0.75:
        return f'{rng.choice(["R1", "QF", "Final", "seg 2"])}-{rng.randint(1, 99)}'
    n = rng.randint(1, 6) if rng.random() < 0.9 else rng.randint(40, 160)
    return ''.join(rng.choice(UNICODE_BITS + list('0123456789-"\\ \t')) for _ in range(n))


def gen_deal(rng):
    k = rng.random()
    cards = list(rb.CARDS)
    if k < 0.62:
        rng.shuffle(cards)
        hands = [cards[0:13], cards[13:26], cards[26:39], cards[39:52]]
    elif k < 0.72:
        # each seat holds one complete suit (voids everywhere)
        suits = list(rb.SUITS)
        rng.shuffle(suits)
        hands = [[s + r for r in rb.RANKS] for s in suits]
    else:
        # shaped: one seat gets a long suit, the rest random
        long_suit = rng.choice(rb.SUITS)
        n = rng.randint(7, 13)
        suit_cards = [long_suit + r for r in rb.RANKS]
        rng.shuffle(suit_cards)
        first = suit_cards[:n]
        rest = [c for c in cards if c not in first]
        rng.shuffle(rest)
        first += rest[:13 - n]
        rest = rest[13 - n:]
        hands = [first, rest[0:13], rest[13:26], rest[26:39]]
        rng.shuffle(hands)
    return {s: sorted(h, key=rb.card_index) for s, h in zip(rb.SEATS, hands)}


def gen_dda(rng):
    return {s: {d: rng.randint(0, 13) for d in rb.DENOMS} for s in rb.SEATS}


def gen_board(rng, i):
    return {
        'board_id': gen_board_id(rng, i),
        'dealer': rng.choice(rb.SEATS),
        'vul': rng.choice(rb.VULS),
        'deal': gen_deal(rng),
        'dda': gen_dda(rng) if rng.random() < 0.3 else None,
    }


AUCTION_STYLES = ('allpass', 'short', 'competitive', 'long', 'slam', 'target', 'target')


def gen_target_auction(rng, dealer):
    """A short auction that ends in a contract drawn UNIFORMLY from the 35 x 3 cells (level and
    denomination x undoubled / doubled / redoubled), declared by a uniformly drawn seat: the
    ordinary styles seldom leave the one- and two-level, so the scoring and the doubling state of
    the rarer contracts would hardly ever reach the log."""
    a = rb.Auction(dealer)
    calls = []
    declarer_offset = rng.randrange(4)
    for _ in range(declarer_offset):
        a.apply('Pass')
        calls.append('Pass')
    bid = rng.choice(rb.BIDS)
    doubling = rng.choice(('', 'X', 'XX'))
    a.apply(bid)
    calls.append(bid)
    if doubling:
        # doubled by the left-hand opponent, or by the right-hand one after two passes
        if rng.random() < 0.5:
            seq = ['X']
        else:
            seq = ['Pass', 'Pass', 'X']
        if doubling == 'XX':
            seq += ['XX'] if rng.random() < 0.5 else ['Pass', 'Pass', 'XX']
        for c in seq:
            a.apply(c)
            calls.append(c)
    while not a.done:
        a.apply('Pass')
        calls.append('Pass')
    return calls, a


def gen_auction(rng, dealer, style):
    if style == 'target':
        return gen_target_auction(rng, dealer)
    a = rb.Auction(dealer)
    calls = []
    opened = False
    while not a.done:
        legal = a.legal_calls()
        bids = [c for c in legal if c in rb.BIDS]
        call = 'Pass'
        if style == 'allpass':
            call = 'Pass'
        elif style == 'short':
            if not opened and bids and rng.random() < 0.45:
                call = rng.choice(bids[:15])
            elif opened and 'X' in legal and rng.random() < 0.15:
                call = 'X'
            elif opened and 'XX' in legal and rng.random() < 0.3:
                call = 'XX'
        elif style == 'competitive':
            r = rng.random()
            if 'XX' in legal and r < 0.35:
                call = 'XX'
            elif 'X' in legal and r < 0.25:
                call = 'X'
            elif bids and r < 0.6:
                call = rng.choice(bids[:6])
        elif style == 'long':
            r = rng.random()
            if 'XX' in legal and r < 0.2:
                call = 'XX'
            elif 'X' in legal and r < 0.15:
                call = 'X'
            elif bids and r < 0.8:
                call = bids[0] if rng.random() < 0.8 else rng.choice(bids[:3])
        elif style == 'slam':
            r = rng.random()
            if 'XX' in legal and r < 0.5:
                call = 'XX'
            elif 'X' in legal and r < 0.4:
                call = 'X'
            elif bids and r < 0.6:
                call = rng.choice(bids[-12:])
        if call in rb.BIDS:
            opened = True
        # do not let three opening passes be followed by a forced fourth too often
        a.apply(call)
        calls.append(call)
        if len(calls) > 330:
            raise AssertionError('auction too long')
    return calls, a


def gen_play(rng, deal, declarer, denom, revoke=0.0, ruffy=False):
    """ruffy: a style of play that makes the rarer trick shapes common -- the leader prefers a
    side suit in which as many of the other three hands as possible are void, and a hand that
    cannot follow ruffs (with a random trump) whenever it can: several ruffs and overruffs on one
    trick, in every rank order."""
    p = rb.Play(deal, declarer, denom)
    cards = []
    trump = p.trump
    while not p.done:
        if revoke and rng.random() < revoke:
            pool = sorted(p.hands[p.turn], key=rb.card_index)
        else:
            pool = sorted(p.follow_set(), key=rb.card_index)
        if ruffy and trump:
            hand = p.hands[p.turn]
            if not p.trick:
                others = [s for s in rb.SEATS if s != p.turn]
                best = {}
                for c in pool:
                    if c[0] == trump:
                        continue
                    best[c[0]] = sum(1 for o in others
                                     if not any(x[0] == c[0] for x in p.hands[o]) and
                                     any(x[0] == trump for x in p.hands[o]))
                if best and max(best.values()) >= 2:
                    top = max(best.values())
                    pool = [c for c in pool if best.get(c[0]) == top]
            else:
                led = p.trick[0][0]
                if not any(c[0] == led for c in hand):
                    trumps = [c for c in hand if c[0] == trump]
                    if trumps:
                        pool = sorted(trumps, key=rb.card_index)
        c = rng.choice(pool)
        p.apply(c)
        cards.append(c)
    return cards, p


def gen_script(rng, boards, style=None):
    script = []
    for b in boards:
        st = style or rng.choice(AUCTION_STYLES)
        if st == 'mixed':
            st = rng.choice(AUCTION_STYLES)
        calls, a = gen_auction(rng, b['dealer'], st)
        res = a.result()
        cards = []
        if res['declarer'] is not None:
            revoke = 0.15 if rng.random() < 0.25 else 0.0
            ruffy = rng.random() < 0.5
            cards, _ = gen_play(rng, b['deal'], res['declarer'], res['denom'], revoke, ruffy)
        script.append({'calls': calls, 'cards': cards, 'style': st})
    return script


def gen_style(rng, plain=False):
    if plain:
        return {'notation': 'RS', 'case': 'asis', 'alert': 0.0, 'spaces': False}
    return {
        'notation': rng.choice(('RS', 'SR', 'mix')),
        'case': rng.choice(('asis', 'asis', 'upper', 'lower', 'mix')),
        'alert': rng.choice((0.0, 0.0, 0.3, 1.0)),
        'spaces': rng.random() < 0.4,
    }


def gen_prelude(rng):
    """Another session that the same process ran BEFORE the one under judgement (a tournament
    driver running tables back to back in one interpreter): one or two boards, scripted seats,
    ended normally, or abandoned because of an illegal call, or because a seat walked away (at the
    deal, in the auction, in the play) and the operator interrupted the hung table manager.
    Whatever it leaves behind in the process -- class attributes, module-level tables, caches --
    the next session must not see."""
    nb = rng.choice((1, 1, 2))
    boards = [gen_board(rng, i) for i in range(nb)]
    script = gen_script(rng, boards, style=rng.choice(('allpass', 'short', 'target')))
    seats = {s: {'kind': 'scripted', 'style': gen_style(rng), 'seed': rng.randrange(1 << 30)}
             for s in rb.SEATS}
    pre = {'boards': boards, 'script': script, 'seats': seats,
           'teams': {'NS': gen_team_name(rng), 'EW': gen_team_name(rng)}, 'abort': None}
    r = rng.random()
    if r < 0.2:
        # the table never fills: only one to three players turn up and the operator gives up
        k = rng.randint(1, 3)
        pre['abort'] = {'kind': 'partial', 'seats': sorted(rng.sample(rb.SEATS, k))}
    elif r < 0.45:
        b = rng.randrange(nb)
        phase = rng.choice(('deal', 'call'))
        pre['abort'] = {'kind': 'leave', 'seat': rng.choice(rb.SEATS), 'board': b, 'phase': phase,
                        'index': 0 if phase == 'deal' else
                        rng.randrange(max(1, len(script[b]['calls'])))}
    elif r < 0.65:
        a = rb.Auction(boards[0]['dealer'])
        i = rng.randrange(max(1, len(script[0]['calls'])))
        for c in script[0]['calls'][:i]:
            a.apply(c)
        bad = [c for c in rb.CALLS if not a.legal(c)]
        if bad:
            c = rng.choice(bad)
            body = {'X': 'doubles', 'XX': 'redoubles'}.get(c, 'bids ' + c)
            pre['abort'] = {'kind': 'offend', 'seat': a.turn, 'board': 0, 'phase': 'call',
                            'index': i, 'raw': f'{rb.SEAT_NAMES[a.turn]} {body}'}
    return pre


def gen_s1(rng, nboards=None, table=None):
    """A conforming-session scenario."""
    long_session = False
    if nboards is None:
        nboards = rng.choice((1, 1, 1, 2, 2, 3, 4))
        if rng.random() < 0.04:
            # an occasional long session (state that accumulates over boards, counters, queues)
            nboards = rng.randint(5, 14)
            long_session = True
    boards = [gen_board(rng, i) for i in range(nboards)]
    if nboards >= 2 and rng.random() < 0.08:
        # a board that is played twice in one session (a replayed deal): same deal, dealer,
        # vulnerability, id and table, at a random earlier position and again at the end
        import copy as _copy
        boards[-1] = _copy.deepcopy(boards[rng.randrange(nboards - 1)])
        if rng.random() < 0.5:
            # ... and it is the very same BoardSetting object in the list (a board list built as
            # [b, b], or one parsed list used again): what the first playing did to the object
            # -- e.g. to its Hands -- is what the second one is dealt
            boards[-1]['same_object'] = True
    if nboards >= 2 and rng.random() < 0.08:
        # different boards under the same identifier (two segments both numbered from 1, or no
        # identifiers at all)
        same = rng.choice(('1', '', boards[0]['board_id']))
        for b in boards[rng.randrange(nboards - 1):]:
            b['board_id'] = same
        boards[0]['board_id'] = same
    ns = gen_team_name(rng)
    ew = gen_team_name(rng) if rng.random() < 0.9 else ns
    if table is None:
        table = rng.choice(('bundled', 'bundled', 'scripted', 'mixed', 'mixed', 'shipped'))
    seats = {}
    for s in rb.SEATS:
        if table == 'mixed':
            kind = rng.choice(('bundled', 'scripted'))
        else:
            kind = table
        seats[s] = {'kind': kind, 'style': gen_style(rng), 'seed': rng.randrange(1 << 30)}
        if kind == 'scripted' and rng.random() < 0.06:
            # shuts down its sending direction after the last message it has to send
            seats[s]['half_close'] = True
    if table == 'shipped':
        pk = rng.choice(('shipped', 'shipped', 'shipped-pass'))
        for s in rb.SEATS:
            seats[s]['kind'] = pk
        script = [{'calls': [], 'cards': [], 'style': pk} for _ in boards]
    elif long_session:
        # mostly cheap boards so that a long session costs about as much as a 3-board one
        script = []
        for b in boards:
            script.extend(gen_script(rng, [b], style=rng.choice(('allpass', 'allpass', 'short',
                                                                 'competitive'))))
    else:
        script = gen_script(rng, boards)
    prelude = None
    if rng.random() < 0.08:
        prelude = gen_prelude(rng)
    return {
        'family': 'S1',
        'prelude': prelude,
        'boards': boards,
        'teams': {'NS': ns, 'EW': ew},
        'script': script,
        'seats': seats,
        'table': table,
    }
