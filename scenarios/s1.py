"""S1: conforming sessions.  The unit of work is a *group*: one scenario, run first fault-free
under `fifo` (the pilot: baseline, budgets, stall placement) and then under m-1 perturbed
schedules.  Evaluated: C08, C09, C10, C11, C12, C19(A)."""
from __future__ import annotations

import json
import math
import random

from model import refbridge as rb
from oracles import probes as pr
from oracles import session_oracle as so
from scenarios import gen, session
from sim import parserec

STALL_KINDS = {
    'server': ('ev.set', 'ev.clear', 'accept', 'q.put', 'q.get', 'sleep', 'thread.start',
               'thread.alive', 'bar.wait'),
    'pt': ('ev.set', 'ev.wait', 'ev.clear', 'q.put', 'q.get', 'send', 'bar.wait'),
    'client': ('send', 'connect'),
}


# set by the determinism self-test (harness.campaign 'digest' tasks): every run's full event-log
# digest is then returned with the statistics
WANT_RUN_DIGESTS = [False]


def pilot_info(run):
    sim = run.sim
    info = {'decisions': sim.decisions, 'steps': sim.thread_steps, 'now': sim.now,
            'roles': [], 'nstable': {}, 'kinds': {},
            'bytes': sum(len(s[4]) for s in run.netw.sends), 'messages': len(run.netw.sends)}
    for t in sim.threads:
        info['roles'].append(t.role)
        info['nstable'][t.role] = t.nstable
        info['kinds'][t.role] = dict(t.kind_counts)
    return info


def log_uniform(rng, lo, hi):
    return math.exp(rng.uniform(math.log(lo), math.log(hi)))


def gen_stall(rng, info, roles=None):
    roles = roles or info['roles']
    role = rng.choice(roles)
    dur = None if rng.random() < 0.2 else round(log_uniform(rng, 1e-3, 3600.0), 4)
    fam = role.split(':')[0]
    kinds = [k for k in STALL_KINDS.get(fam, ()) if info['kinds'].get(role, {}).get(k)]
    # a quarter of the stalls freeze the thread in the middle of a stretch of code that contains
    # no synchronisation operation at all (k source lines past one), not on the operation itself
    lines = rng.randint(1, 12) if rng.random() < 0.25 else None
    tm = [r for r in roles if r == 'server' or r.startswith('pt:')]
    if tm and rng.random() < 0.12:
        # frozen at the m-th line of server.py that a thread of the table manager executes,
        # counted from its start: for a connection thread that is its admission code
        return {'role': rng.choice(tm), 'index': None,
                'duration': None if rng.random() < 0.6 else dur, 'after_kind': None,
                'after_n': None, 'after_obj': None, 'lines': rng.randint(1, 45),
                'origin': 'start:network_bridge/server.py'}
    if kinds and rng.random() < 0.5:
        k = rng.choice(kinds)
        n = rng.randint(1, info['kinds'][role][k])
        return {'role': role, 'index': None, 'duration': dur, 'after_kind': k, 'after_n': n,
                'after_obj': None, 'lines': lines}
    return {'role': role, 'index': rng.randrange(0, max(1, info['nstable'].get(role, 1))),
            'duration': dur, 'after_kind': None, 'after_n': None, 'after_obj': None,
            'lines': lines}


def gen_net(rng):
    r = rng.random()
    chunk = 'whole' if r < 0.35 else 'few' if r < 0.7 else 'crlf' if r < 0.95 else 'bytes'
    # short_send only matters to code that calls socket.send() (sendall() loops by itself)
    return {'chunk': chunk, 'latency': rng.choice(('const', 'uniform', 'heavy', 'heavy', 'outage')),
            'short_send': rng.choice((0.0, 0.0, 0.3, 0.8)),
            # a connection closed with unread data is reset (TCP), not closed gracefully
            'rst': rng.random() < 0.5}


def gen_sched(rng, info, force=None):
    strat = force or rng.choice(('walk', 'walk', 'pct', 'pct', 'stall', 'stall', 'stall', 'fifo'))
    sched = {'seed': rng.randrange(1 << 40), 'net': gen_net(rng), 'stalls': [],
             # the default text encoding of the machine the table manager runs on (what a bare
             # open(path, 'w') uses): UTF-8 mostly, now and then a legacy one
             'fs_encoding': rng.choice((None, None, None, None, None, 'ascii', 'latin-1')),
             # the output path already holds an older, much longer log
             'stale_log': rng.random() < 0.3}
    # Threads the tree under test starts besides its connection threads (a writer thread, pool
    # workers, a timer) are where a refactoring adds new concurrency: when the pilot run had any,
    # half of the schedules are aimed at them -- either they are starved (they run, in a shuffled
    # order, only when nothing else can move and no event is pending) or one of them is frozen at
    # a random one of its operations.  The unchanged tree starts none, so nothing changes for it.
    aux = [r for r in info.get('roles', ()) if r.startswith('aux:')]
    if aux and rng.random() < 0.5:
        if rng.random() < 0.5:
            rest = [r for r in info['roles'] if not r.startswith('aux:')]
            rng.shuffle(aux)
            sched.update(strategy='order', order=rest + ['EVENT'] + aux, label='starve-aux')
        else:
            role = rng.choice(aux)
            sched.update(strategy='walk', p_event=rng.choice((0.0, 0.05, 0.3)), label='stall-aux')
            sched['stalls'] = [{'role': role, 'duration': None if rng.random() < 0.6 else
                                round(log_uniform(rng, 1e-3, 3600.0), 4),
                                'index': rng.randrange(0, max(1, info['nstable'].get(role, 1))),
                                'after_kind': None, 'after_n': None, 'after_obj': None}]
        set_budgets(sched, info)
        return sched
    if strat == 'walk':
        sched.update(strategy='walk', p_event=rng.choice((0.0, 0.05, 0.3)))
    elif strat == 'pct':
        sched.update(strategy='pct', depth=rng.choice((1, 2, 3)),
                     horizon=max(50, info['decisions']))
    elif strat == 'stall':
        sched.update(strategy='walk', p_event=rng.choice((0.0, 0.05, 0.3)))
        k = rng.choice((1, 1, 2, 3))
        sched['stalls'] = [gen_stall(rng, info) for _ in range(k)]
    else:
        sched.update(strategy='fifo')
    sched['label'] = strat if strat != 'stall' else f'stall({len(sched["stalls"])})'
    set_budgets(sched, info)
    return sched


def set_budgets(sched, info):
    # an 'until idle' stall ends after Sim.idle_cap (3600 s) at the latest
    stall_time = sum(3600.0 if s['duration'] is None else s['duration']
                     for s in sched.get('stalls', ()))
    # liveness as bounded progress once faults stop: 20x the fault-free thread steps (+ one extra
    # step per byte on the wire, the worst case of byte-wise chunking) after the last fault
    sched['steps_after_fault'] = 20 * (info['steps'] + info['bytes']) + 1000
    sched['max_decisions'] = 60 * (info['decisions'] + info['bytes']) + 5000
    # + Sim.max_defer (2 s) per thread step: the most that 'events first' may add
    sched['max_time'] = 3 * (info['now'] + stall_time) + 6.0 * info['messages'] + 100.0 + \
        2.0 * (info['steps'] + info['bytes'])


def evaluate_run(run, props, cov):
    an = so.evaluate(run, props, cov)
    bp, windows = pr.barrier_probes(run.sim)
    for k, v in bp.items():
        run.sim.probes[k] = run.sim.probes.get(k, 0) + v
    for k, v in pr.session_probes(run, an).items():
        run.sim.probes[k] = run.sim.probes.get(k, 0) + v
    # re-key C09 deadlock findings by the probe that fired
    for f in an.findings:
        if f.prop == 'C09' and f.oracle == 'deadlock':
            f.key = 'deadlock:' + so.probe_key(run.sim)
    return an, windows


def new_stats():
    return {'runs': 0, 'decisions': 0, 'thread_steps': 0, 'events_fired': 0, 'sim_time': 0.0,
            'outcomes': {}, 'faults': {}, 'probes': {}, 'strategies': {}, 'net': {},
            'digests': {}, 'windows': [], 'unknown_lines': 0, 'boards': 0, 'tables': {}, 'extra': {},
            'cov': {'calls': [], 'cards': [], 'headers': [], 'voids': [], 'hand_sizes': [],
                    'contracts': []}}


def add_run_stats(st, run, an, windows, label):
    sim = run.sim
    st['runs'] += 1
    st['decisions'] += sim.decisions
    st['thread_steps'] += sim.thread_steps
    st['events_fired'] += sim.events_fired
    st['sim_time'] += sim.now
    st['outcomes'][run.outcome] = st['outcomes'].get(run.outcome, 0) + 1
    for k, v in sim.fault_counts.items():
        st['faults'][k] = st['faults'].get(k, 0) + v
    nc = run.sched.get('net', {})
    if nc.get('chunk', 'whole') != 'whole':
        st['faults']['chunking.' + nc['chunk']] = st['faults'].get('chunking.' + nc['chunk'], 0) + 1
    if nc.get('latency', 'const') != 'const':
        st['faults']['latency.' + nc['latency']] = st['faults'].get('latency.' + nc['latency'], 0) + 1
    for k, v in sim.probes.items():
        st['probes'][k] = st['probes'].get(k, 0) + v
    st['strategies'][label] = st['strategies'].get(label, 0) + 1
    dg = pr.sync_digest(sim)
    nontrivial = bool(sim.fault_counts) or any(
        sim.probes.get(k) for k in ('early_pass', 'late_waiter', 'stale_arrival',
                                     'rearrival_before_drain')) or \
        nc.get('chunk', 'whole') != 'whole' or nc.get('latency', 'const') != 'const'
    st['digests'][dg] = st['digests'].get(dg, False) or nontrivial
    for w in windows:
        st['windows'].append('|'.join(w))
    st['unknown_lines'] += an.unknown_lines
    st['boards'] += getattr(an, 'complete_boards', 0)
    g = getattr(an, 'stats', {}).get('c11_observation_gaps')
    if g:
        st['extra']['harness_observation_gaps'] = st['extra'].get('harness_observation_gaps', 0) + g
    if WANT_RUN_DIGESTS[0]:
        st.setdefault('run_digests', []).append(run.digest)
    nb = len((run.scn or {}).get('boards') or ())
    key = 'sessions_with_%s_boards' % (nb if nb < 5 else '5+')
    st['extra'][key] = st['extra'].get(key, 0) + 1


def finding_record(f, scn, sched, run, family='S1'):
    return {'prop': f.prop, 'oracle': f.oracle, 'key': f.key, 'msg': f.msg[:2000],
            'plan': {'family': family, 'scenario': scn, 'sched': sched},
            'outcome': run.outcome, 'digest': run.digest,
            'blocked': [list(b) for b in run.sim.blocked_final[:12]]}


def merge_stats(dst, src):
    """Fold the statistics of one (isolated) run into a task's statistics."""
    for k, v in src.items():
        if k == 'digests':
            for d, nt in v.items():
                dst[k][d] = dst[k].get(d, False) or nt
        elif k == 'cov':
            for ck, items in v.items():
                have = dst[k].setdefault(ck, [])
                for x in items:
                    if x not in have:
                        have.append(x)
        elif isinstance(v, dict):
            d = dst.setdefault(k, {})
            for kk, vv in v.items():
                if isinstance(vv, bool):
                    d[kk] = d.get(kk, False) or vv
                elif isinstance(vv, (int, float)):
                    d[kk] = d.get(kk, 0) + vv
                else:
                    d[kk] = vv
        elif isinstance(v, list):
            dst.setdefault(k, []).extend(v)
        elif isinstance(v, (int, float)) and not isinstance(v, bool):
            dst[k] = dst.get(k, 0) + v
        else:
            dst[k] = v


def exec_run(scn, sched, props, label):
    """One simulated session + its evaluation; everything returned is plain data.  Always called
    through harness.isolate (a forked child), so that no run can see interpreter state left behind
    by another."""
    parserec.reset()
    run = session.run_session(scn, sched)
    cov = {'calls': set(), 'cards': set(), 'headers': set(), 'voids': set(), 'hand_sizes': set()}
    an, windows = evaluate_run(run, props, cov)
    st = new_stats()
    add_run_stats(st, run, an, windows, label)
    for k in cov:
        st['cov'][k] = sorted(map(list, cov[k])) if k in ('calls', 'cards', 'headers') else \
            sorted(cov[k])
    # which cells of the scoring table reached a log record: (contract with doubling,
    # declarer's side vulnerable?, made / down)
    cells = set()
    for i, d in enumerate(an.decisions):
        res = d.get('result')
        if d.get('complete') and res and res['declarer'] is not None and i < len(an.model_records):
            rec = an.model_records[i]
            vul = scn['boards'][i]['vul']
            dv = vul == 'Both' or vul == rb.side(res['declarer'])
            made = rec['scores'][rb.side(res['declarer'])] > 0
            cells.add(f"{res['contract']}/{'V' if dv else 'nv'}/{'made' if made else 'down'}")
    st['cov']['contracts'] = sorted(cells)
    ok = run.outcome == 'finished' and run.server_exc is None
    res = {'st': st, 'info': pilot_info(run), 'digest': run.digest,
           'findings': [finding_record(f, scn, sched, run) for f in an.findings
                        if f.prop in props],
           'log_text': run.log_text if ok else None, 'outcome': run.outcome,
           'sample': sample_of(scn, sched, run)}
    session.cleanup(run)
    return res


def run_group(task):
    """task: {'seed', 'm', 'props', 'nboards'?, 'table'?, 'force'?}"""
    from harness import isolate
    seed = task['seed']
    props = tuple(task['props'])
    rng = random.Random(f'group/{seed}')
    scn = gen.gen_s1(rng, nboards=task.get('nboards'), table=task.get('table'))
    scn['decision_seed'] = rng.randrange(1 << 40)
    st = new_stats()
    findings = []
    samples = []
    st['tables'][scn['table']] = 1

    pilot_sched = session.default_sched()
    r = isolate.call(exec_run, scn, pilot_sched, props, 'fifo')
    merge_stats(st, r['st'])
    info = r['info']
    findings.extend(r['findings'])
    finished_logs = []
    if r['log_text'] is not None:
        finished_logs.append((pilot_sched, r['log_text']))
    samples.append(r['sample'])
    digests = [r['digest']]

    for j in range(task.get('m', 3) - 1):
        sched = gen_sched(rng, info, task.get('force'))
        r = isolate.call(exec_run, scn, sched, props, sched['label'])
        merge_stats(st, r['st'])
        digests.append(r['digest'])
        findings.extend(r['findings'])
        if r['log_text'] is not None:
            finished_logs.append((sched, r['log_text']))
        if j == 0:
            samples.append(r['sample'])

    # timing independence (C08): the record depends only on boards and decisions
    if 'C08' in props and len(finished_logs) > 1:
        base_sched, base = finished_logs[0]
        try:
            bj = json.loads(base)
        except ValueError:
            bj = None
        for sched, txt in finished_logs[1:]:
            try:
                tj = json.loads(txt)
            except ValueError:
                tj = None
            if bj is not None and tj is not None and tj != bj:
                findings.append({'prop': 'C08', 'oracle': 'timing-dependence',
                                 'key': 'timing-dependence',
                                 'msg': 'the same boards and decisions produced a different log '
                                        'under another schedule',
                                 'plan': {'family': 'S1', 'scenario': scn, 'sched': sched,
                                          'compare_with': base_sched},
                                 'outcome': 'finished', 'digest': None, 'blocked': []})
                break
    st['compared_logs'] = len(finished_logs)
    return {'stats': st, 'findings': findings[:20], 'samples': samples[:2], 'digests': digests,
            'nfindings': len(findings)}


def sample_of(scn, sched, run):
    return {'boards': len(scn['boards']), 'table': scn['table'],
            'auctions': [' '.join(s['calls'][:12]) + (' ...' if len(s['calls']) > 12 else '')
                         for s in scn['script']][:2],
            'schedule': {k: sched.get(k) for k in ('strategy', 'label', 'p_event', 'depth', 'net',
                                                   'stalls') if sched.get(k) is not None},
            'outcome': run.outcome, 'decisions': run.sim.decisions,
            'simulated_seconds': round(run.sim.now, 3)}
