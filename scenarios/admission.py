"""S2: admission storm.  4-10 connection requests (seat, team name, version) arriving in a
scheduler-chosen order; every requester is a complete conforming player that stops on an ERROR
reply and plays the session if seated.  Expected verdicts come from a sequential admission model
replayed over the accept order the run actually produced.  Adaptive filler requests complete the
table once every generated request has its verdict.  Evaluated: C20, C09."""
from __future__ import annotations

import copy
import itertools
import random

from model import refbridge as rb
from oracles import session_oracle as so
from oracles import probes as pr
from scenarios import gen, session, s1
from sim import parserec, prims

BAD_VERSIONS = (17, 19, 0, 1, 180, 8)


def gen_requests(rng, n=None):
    n = n if n is not None else rng.randint(4, 10)
    ns = [gen.gen_team_name(rng)]
    ns.append(gen.gen_team_name(rng, forbid=ns))
    ew = [gen.gen_team_name(rng)]
    ew.append(gen.gen_team_name(rng, forbid=ew))
    if rng.random() < 0.15:
        ew[0] = ns[0]       # both sides may carry the same name
    reqs = []
    for i in range(n):
        seat = rng.choice(rb.SEATS)
        names = ns if seat in 'NS' else ew
        r = rng.random()
        team = names[0] if r < 0.65 else names[1]
        version = 18 if rng.random() < 0.8 else rng.choice(BAD_VERSIONS)
        reqs.append({'seat': seat, 'team': team, 'version': version,
                     'linger': rng.random() < 0.3,
                     'kind': rng.choice(('scripted', 'scripted', 'bundled')),
                     'style': gen.gen_style(rng), 'seed': rng.randrange(1 << 30)})
        if version != 18 and reqs[-1]['kind'] == 'scripted' and rng.random() < 0.35:
            # hangs up right after sending its request (refused whatever the order)
            reqs[-1]['impatient'] = True
            reqs[-1]['linger'] = False
    return reqs


def gen_s2(rng, n=None):
    boards = [gen.gen_board(rng, 0)]
    script = gen.gen_script(rng, boards, style=rng.choice(('allpass', 'allpass', 'short',
                                                           'competitive')))
    return {'family': 'S2', 'boards': boards, 'script': script, 'requests': gen_requests(rng, n),
            # now and then the same process has run another table before (see gen.gen_prelude)
            'prelude': gen.gen_prelude(rng) if rng.random() < 0.1 else None,
            'teams': None, 'table': 'admission', 'decision_seed': rng.randrange(1 << 40),
            'filler_kind': rng.choice(('scripted', 'bundled'))}


class Director:
    """Harness-side thread that issues filler requests until the table is complete."""

    def __init__(self, sim, scn, run):
        self.sim = sim
        self.scn = scn
        self.run = run
        self.q = prims.SimQueue()
        self.seated = {}
        self.fillers = 0
        # opened when the table is complete (or cannot become so): lingering rejected requesters
        # hang up only then
        self.release = prims.SimEvent()

    def on_verdict(self, pl):
        self.q.put((pl.name, pl.seat, pl.team, pl.verdict))

    def main(self):
        n = len(self.scn['requests'])
        got = 0
        while got < n and len(self.seated) < 4:
            name, seat, team, verdict = self.q.get()
            got += 1
            if verdict == 'seated':
                self.seated[seat] = team
        # fill the free seats, one acceptable request at a time
        guard = 0
        while len(self.seated) < 4 and guard < 8:
            guard += 1
            free = [s for s in rb.SEATS if s not in self.seated]
            seat = free[0]
            team = self.seated.get(rb.partner(seat))
            if team is None:
                team = 'filler-' + rb.side(seat)
            spec = {'kind': self.scn.get('filler_kind', 'scripted'),
                    'style': gen.gen_style(None, plain=True), 'seed': 1000 + self.fillers}
            role = f'fill:{self.fillers}'
            self.fillers += 1
            pl = session.make_player(self.scn, seat, spec, role, team=team,
                                     on_verdict=self.on_verdict)
            pl.is_filler = True
            self.run.players.append(pl)
            self.sim.spawn(pl.run, role, proc=role)
            name, seat2, team2, verdict = self.q.get()
            if verdict == 'seated':
                self.seated[seat2] = team2
            else:
                # an acceptable request was refused: leave it to the oracle; stop filling to
                # avoid looping
                break
        self.release.set()


def spawn_requesters(sim, scn, run):
    d = Director(sim, scn, run)
    run.director = d
    order = scn.get('connect_order')
    gates = None
    if order is not None:
        gates = [prims.SimEvent() for _ in order]
    for i, rq in enumerate(scn['requests']):
        role = f'req:{i}'
        pre = post = None
        if order is not None:
            pos = order.index(i)

            def pre(pos=pos):
                if pos > 0:
                    gates[pos - 1].wait()

            def post(pos=pos):
                gates[pos].set()
        pl = session.make_player(scn, rq['seat'], rq, role, team=rq['team'],
                                 version=rq['version'], on_verdict=d.on_verdict,
                                 pre_connect=pre, post_connect=post,
                                 linger_gate=d.release if rq.get('linger') else None,
                                 impatient=bool(rq.get('impatient')))
        pl.is_filler = False
        if rq.get('impatient'):
            sim.count_fault('requester.impatient')
        run.players.append(pl)
        sim.spawn(pl.run, role, proc=role)
    sim.spawn(d.main, 'director')


# ---------------------------------------------------------------------------------------------
# oracle
# ---------------------------------------------------------------------------------------------

def admission_model(views, order=None):
    """Replay the sequential admission rule over the observed accept order (or over `order`, a
    list of connection ids: the linearization found by admission_linearizable, followed by the
    accepted connections it does not contain).  Returns (expected verdict per cid, final seat
    table)."""
    seats = {s: None for s in rb.SEATS}
    expect = {}
    acc = sorted((v for v in views.values() if v.accept_index is not None),
                 key=lambda v: v.accept_index)
    if order:
        pos = {cid: i for i, cid in enumerate(order)}
        acc.sort(key=lambda v: (pos.get(v.cid, len(pos)), v.accept_index))
    for v in acc:
        if v.seat is None:
            expect[v.cid] = ('unparsed', None)
            continue
        if all(seats[s] is not None for s in rb.SEATS):
            expect[v.cid] = ('after-complete', None)
            continue
        if v.version != 18:
            expect[v.cid] = ('error', 'version')
        elif seats[v.seat] is not None:
            expect[v.cid] = ('error', 'seat-taken')
        elif seats[rb.partner(v.seat)] is not None and seats[rb.partner(v.seat)] != v.team:
            expect[v.cid] = ('error', 'team-mismatch')
        else:
            expect[v.cid] = ('seated', None)
            seats[v.seat] = v.team
    return expect, seats


def _seq_verdict(table, seat, team, version):
    if version != 18:
        return 'error'
    if table[seat] is not None:
        return 'error'
    pt = table[rb.partner(seat)]
    if pt is not None and pt != team:
        return 'error'
    return 'seated'


def admission_linearizable(views):
    """Is there an order of the answered requests -- respecting real-time precedence: X before Y
    whenever X's reply was sent before Y's request was sent -- in which the sequential admission
    rule yields exactly the observed verdicts?  The table manager of the pinned tree admits one
    connection at a time, so the accept order is the only candidate; an implementation that
    handles connections concurrently is just as right as long as SOME such order exists, and the
    check must not demand more than that.  Returns (ok, order)."""
    ops = []
    for v in views.values():
        if v.seat is None or not v.c2s or not v.s2c:
            continue
        first = v.s2c[0][2][0]
        if first not in ('SEATED', 'ERROR'):
            continue
        ops.append({'cid': v.cid, 'seat': v.seat, 'team': v.team, 'version': v.version,
                    'inv': v.c2s[0][0], 'res': v.s2c[0][0],
                    'verdict': 'seated' if first == 'SEATED' else 'error'})
    ops.sort(key=lambda o: o['cid'])
    n = len(ops)
    if n > 16:
        return True, None          # never generated; do not search an exponential space
    seen = set()

    def dfs(done, table, order):
        if len(done) == n:
            return order
        key = (done, tuple(table[s] for s in rb.SEATS))
        if key in seen:
            return None
        seen.add(key)
        full = all(table[s] is not None for s in rb.SEATS)
        for i, o in enumerate(ops):
            if i in done:
                continue
            # o may come next only if no other pending request had completed before o began
            if any(j not in done and j != i and ops[j]['res'] < o['inv'] for j in range(n)):
                continue
            if full:
                # the table is complete: the table manager has stopped accepting; whatever such
                # a late request was told is outside the property
                r = dfs(done | {i}, table, order + [o['cid']])
            elif _seq_verdict(table, o['seat'], o['team'], o['version']) != o['verdict']:
                continue
            else:
                t2 = dict(table)
                if o['verdict'] == 'seated':
                    t2[o['seat']] = o['team']
                r = dfs(done | {i}, t2, order + [o['cid']])
            if r is not None:
                return r
        return None

    order = dfs(frozenset(), {s: None for s in rb.SEATS}, [])
    return order is not None, order


def check_c20(run, an):
    views = an.views
    lin_ok, lin_order = admission_linearizable(views)
    an.stats['admission_linearization'] = lin_order
    # judged against the order in which the requests can have taken effect (for a table manager
    # that admits one connection at a time that IS the accept order)
    expect, seats = admission_model(views, lin_order if lin_ok else None)
    complete = all(seats[s] is not None for s in rb.SEATS)
    teams = {'NS': seats['N'], 'EW': seats['E']}
    nrej = 0
    for cid, (want, why) in sorted(expect.items()):
        v = views[cid]
        toks = [t for _, _, t in v.s2c]
        lines = [ln for _, ln, _ in v.s2c]
        who = f'connection {cid} ({v.client_role}: {v.seat} "{v.team}" v{v.version}, accept #{v.accept_index})'
        if want == 'error':
            nrej += 1
            if not toks:
                # the verdict may simply not have been produced yet if the run stopped early
                if run.outcome == 'finished':
                    an.add('C20', 'no-reply', f'{who} expected an error ({why}) but got nothing',
                           key='no-reply')
                continue
            if toks[0][0] != 'ERROR' and lin_ok:
                continue        # right under another admissible order of concurrent requests
            if toks[0][0] != 'ERROR':
                an.add('C20', 'wrongly-admitted',
                       f'{who} should have been turned away ({why}) but was answered '
                       f'{lines[0]!r}', key=f'wrongly-admitted:{why}')
                continue
            if len(toks) > 1:
                an.add('C20', 'reject-extra', f'{who} was rejected but then sent {lines[1]!r}',
                       key='reject-extra')
            conn = run.netw.conns[cid]
            if not conn.s2c.writer_closed and run.outcome == 'finished':
                an.add('C20', 'reject-not-closed', f'{who} was rejected but the connection was '
                                                   f'left open', key='reject-not-closed')
        elif want == 'seated':
            if not toks:
                if run.outcome == 'finished':
                    an.add('C20', 'no-reply', f'{who} is acceptable but got no reply',
                           key='no-reply')
                continue
            if toks[0][0] != 'SEATED' and lin_ok:
                continue
            if toks[0][0] != 'SEATED':
                an.add('C20', 'wrongly-rejected', f'{who} is acceptable but was answered '
                                                  f'{lines[0]!r}', key='wrongly-rejected')
                continue
            if toks[0][1] != v.seat or toks[0][2] != v.team:
                an.add('C20', 'seated-wrong', f'{who} was told {lines[0]!r}', key='seated-wrong')
            # what follows up to the start of the first board
            head = []
            for t in toks[1:]:
                head.append(t)
                if t[0] == 'START':
                    break
            if complete and run.outcome == 'finished':
                if [t[0] for t in head] != ['TEAMS', 'START']:
                    an.add('C20', 'seated-stream', f'{who}: after being seated it received '
                                                   f'{[t[0] for t in head][:5]} instead of the '
                                                   f'team announcement and the start of the board',
                           key='seated-stream')
            else:
                # prefix-closed: nothing but TEAMS then START may appear
                if [t[0] for t in head] not in ([], ['TEAMS'], ['TEAMS', 'START']):
                    an.add('C20', 'seated-stream', f'{who}: disturbed after seating: '
                                                   f'{[t[0] for t in head][:5]}',
                           key='seated-stream')
            for t in head:
                if t[0] == 'TEAMS' and complete and (t[1], t[2]) != (teams['NS'], teams['EW']):
                    an.add('C20', 'teams-wrong', f'{who} was told teams {t[1:]!r}; seated are '
                                                 f'N/S "{teams["NS"]}" E/W "{teams["EW"]}"',
                           key='teams-wrong')
    if complete:
        if seats['N'] != seats['S'] or seats['E'] != seats['W']:
            an.add('C20', 'model', 'internal: admission model seated mismatching partners')
    # the server kept accepting until the table was complete, and the first board started
    if not complete and (run.outcome != 'finished' or run.server_exc is not None):
        pending = [v for v in views.values() if v.accept_index is None]
        an.add('C20', 'stopped-accepting',
               f'the table never became complete (seated: '
               f'{ {s: t for s, t in seats.items() if t is not None} }); run ended {run.outcome} '
               f'with {len(pending)} request(s) never accepted; blocked: '
               f'{run.sim.blocked_final[:4]}', key='stopped-accepting:' + run.outcome)
    if complete and (run.outcome == 'deadlock' or run.server_exc is not None):
        started = sum(1 for s in rb.SEATS if s in an.seated and
                      any(t[0] == 'START' for _, _, t in an.seated[s].s2c))
        if started < 4:
            an.add('C20', 'board-not-started', f'all four seats were filled but the first board '
                                               f'started on {started} connection(s) only; '
                                               f'blocked: {run.sim.blocked_final[:5]}',
                   key='board-not-started')
    # "... closed without disturbing the players already seated": after requests were turned
    # away, the session of the four seated (conforming) players must go on as if they had never
    # come.  (Without any rejection a session that breaks down is C09's business alone.)
    if complete and nrej and an.offending is None and \
            (run.server_exc is not None or run.outcome != 'finished'):
        why = f'{run.server_exc[0]}: {run.server_exc[1][:160]}' if run.server_exc else run.outcome
        an.add('C20', 'seated-disturbed',
               f'{nrej} request(s) were turned away and four conforming players were seated, but '
               f'the session that followed broke down ({why}); boards completed: '
               f'{an.complete_boards}; blocked: {run.sim.blocked_final[:4]}',
               key='seated-disturbed:' + (run.server_exc[0] if run.server_exc else run.outcome))
    # exactly one live connection per seat: no second SEATED for a seat
    seen = {}
    for v in views.values():
        if v.first_reply is not None and v.first_reply[0] == 'SEATED':
            seen.setdefault(v.first_reply[1], []).append(v.cid)
    for s, cids in seen.items():
        if len(cids) > 1:
            an.add('C20', 'double-seat', f'seat {s} was given to connections {cids}',
                   key='double-seat')
    an.stats['rejections'] = nrej
    an.stats['requests_accepted'] = len(expect)
    return teams if complete else None


def evaluate(run, props):
    an = so.Analysis(run)
    so.find_seated(an)
    lin_ok, lin_order = admission_linearizable(an.views)
    expect, seats = admission_model(an.views, lin_order if lin_ok else None)
    teams = {'NS': '?' if seats['N'] is None else seats['N'],
             'EW': '?' if seats['E'] is None else seats['E']}
    run.scn = dict(run.scn)
    run.scn['teams'] = teams
    so.derive_decisions(an)
    so.build_expectations(an)
    so.parse_log(an)
    if 'C20' in props:
        check_c20(run, an)
    if 'C09' in props:
        so.check_c09(an)
    if 'C10' in props:
        so.check_c10(an)
    if 'C08' in props:
        so.check_c08(an)
    if 'C12' in props:
        so.check_c12(an)
    if 'C11' in props:
        so.check_c11(an)
    return an


def run_one(scn, sched, props, st, findings, label):
    """One admission run in an isolated child; folds its statistics and findings into st /
    findings and returns (pilot info, sample, summary)."""
    from harness import isolate
    r = isolate.call(exec_one, scn, sched, props, label)
    s1.merge_stats(st, r['st'])
    findings.extend(r['findings'])
    return r['info'], r['sample'], r['summary']


def exec_one(scn, sched, props, label):
    st = s1.new_stats()
    findings = []
    parserec.reset()
    run = session.run_session(scn, sched)
    an = evaluate(run, props)
    bp, windows = pr.barrier_probes(run.sim)
    for k, v in bp.items():
        run.sim.probes[k] = v
    alive_after_grace = sum(1 for e in run.sim.log if e[3] == 'thread.alive' and e[5] is True)
    s1.add_run_stats(st, run, an, windows, label)
    nrej = an.stats.get('rejections', 0)
    if nrej:
        st['faults']['rejected_request'] = st['faults'].get('rejected_request', 0) + nrej
    st['extra']['requests'] = st['extra'].get('requests', 0) + len(scn['requests'])
    st['extra']['fillers'] = st['extra'].get('fillers', 0) + getattr(run, 'director').fillers
    st['extra']['connections_accepted'] = st['extra'].get('connections_accepted', 0) + \
        an.stats.get('requests_accepted', 0)
    # probe: a rejected connection's thread still alive after the 1 s grace
    rejected_roles = set()
    expect, _ = admission_model(an.views)
    for cid, (want, why) in expect.items():
        if want == 'error':
            rejected_roles.add(f'pt:{an.views[cid].accept_index}')
    late = sum(1 for e in run.sim.log if e[3] == 'thread.alive' and e[5] is True and
               e[4] in rejected_roles)
    if late:
        st['probes']['rejected_thread_alive_after_grace'] = \
            st['probes'].get('rejected_thread_alive_after_grace', 0) + late
    for f in an.findings:
        if f.prop in props:
            if f.prop == 'C09' and f.oracle == 'deadlock':
                f.key = 'deadlock:' + so.probe_key(run.sim)
            findings.append(s1.finding_record(f, scn, sched, run, family='S2'))
    sample = {'requests': [(r['seat'], r['team'], r['version']) for r in scn['requests']],
              'accept_order': [(v.seat, v.team, v.version) for v in
                               sorted((v for v in an.views.values() if v.accept_index is not None),
                                      key=lambda v: v.accept_index)],
              'verdicts': [expect[v.cid][0] + (':' + expect[v.cid][1] if expect[v.cid][1] else '')
                           for v in sorted((v for v in an.views.values()
                                            if v.accept_index is not None),
                                           key=lambda v: v.accept_index)],
              'schedule': sched.get('label'), 'outcome': run.outcome}
    res = {'st': st, 'findings': findings, 'info': s1.pilot_info(run), 'sample': sample,
           'summary': {'outcome': run.outcome, 'digest': run.digest,
                       'decisions': run.sim.decisions}}
    session.cleanup(run)
    return res


def run_task(task):
    props = tuple(task['props'])
    rng = random.Random(f's2/{task["seed"]}')
    st = s1.new_stats()
    findings = []
    samples = []
    if task['type'] == 's2':
        scn = gen_s2(rng)
        sched = session.default_sched()
        sched['label'] = 'fifo'
        info, sample, _ = run_one(scn, sched, props, st, findings, 's2:fifo')
        samples.append(sample)
        for j in range(task.get('m', 3) - 1):
            sched = s1.gen_sched(rng, info)
            run_one(scn, sched, props, st, findings, 's2:' + sched['label'])
    else:
        # enumeration of all arrival orders of a small request multiset
        n = rng.choice((4, 5, 5, 6))
        scn = gen_s2(rng, n)
        norders = 0
        perms = list(itertools.permutations(range(n)))
        for order in perms:
            c = copy.deepcopy(scn)
            c['connect_order'] = list(order)
            sched = session.default_sched()
            sched['label'] = 'fifo'
            info1, sample, _ = run_one(c, sched, props, st, findings, 's2e:fifo')
            norders += 1
            if norders == 1:
                samples.append(sample)
                info = info1
            if norders % 4 == 0:
                sched = s1.gen_sched(rng, info)
                run_one(c, sched, props, st, findings, 's2e:' + sched['label'])
        st['exhaustive'] = {'requests': n, 'arrival_orders': norders,
                            'what': 'every arrival order of the request multiset (connect order '
                                    'forced by gates), each under fifo and every 4th under one '
                                    'perturbed schedule'}
    return {'stats': st, 'findings': findings[:20], 'samples': samples[:2],
            'nfindings': len(findings)}


def run_sweep(task):
    """Single-stall enumeration over one small admission storm: every thread (table manager,
    connection threads, requesters) frozen at every one of its synchronisation operations until
    everything else has come to rest -- e.g. a rejected connection thread that outlives the 1 s
    grace, an accepted one that is slow to reach the rendezvous, the main thread held between
    start() and wait()."""
    props = tuple(task['props'])
    rng = random.Random(f's2sweep/{task["seed"]}')
    st = s1.new_stats()
    findings = []
    scn = gen_s2(rng, rng.choice((4, 5, 6)))
    scn['script'] = gen.gen_script(rng, scn['boards'], style='allpass')
    base = session.default_sched()
    base['label'] = 'fifo'
    info, sample, _ = run_one(scn, base, props, st, findings, 's2sweep:fifo')
    points = 0
    if not findings:
        for role in info['roles']:
            if role == 'director':
                continue
            for idx in range(info['nstable'].get(role, 0)):
                sched = dict(base)
                sched['stalls'] = [{'role': role, 'index': idx, 'duration': None,
                                    'after_kind': None, 'after_n': None, 'after_obj': None}]
                sched['label'] = 'fifo+stall'
                s1.set_budgets(sched, info)
                run_one(scn, sched, props, st, findings, 's2sweep:stall')
                points += 1
                if len(findings) > 20:
                    break
            if len(findings) > 20:
                break
    st['exhaustive'] = {'requests': len(scn['requests']), 'stall_points_enumerated': points,
                        'threads': len(info['roles']),
                        'what': 'one admission storm: every (thread, synchronisation operation) '
                                'of the fault-free run, that thread frozen there until all else '
                                'has quiesced'}
    seen = set()
    keep = []
    for f in findings:
        if f['key'] not in seen:
            seen.add(f['key'])
            keep.append(f)
    return {'stats': st, 'findings': keep[:10], 'samples': [sample], 'nfindings': len(findings)}


def run_plan(plan, prop):
    st = s1.new_stats()
    findings = []
    _, _, summary = run_one(plan['scenario'], plan['sched'], (prop,), st, findings, 'replay')
    return findings, summary


def run_race(task):
    """Admission race enumeration.  The checks a connection thread makes against the shared seat
    table (seat free? partner's team the same?) and its write into that table are plain
    statements with no synchronisation operation between them, so only a thread frozen IN THE
    MIDDLE of that code can show whether two requests that compete -- for one seat, or as
    partners under different team names -- can both be seated.  One small storm with such a pair
    arriving first; then every connection thread x every source line m = 1..LINES of server.py
    counted from the thread's start: that thread frozen there until everything else has come to
    rest.  (With the serial admission of the pinned tree the second request is not even read
    before the first has its verdict; a table manager that handles requests concurrently must
    make check-and-seat atomic.)"""
    props = tuple(task['props'])
    rng = random.Random(f's2race/{task["seed"]}')
    st = s1.new_stats()
    findings = []
    scn = gen_s2(rng, 4)
    scn['prelude'] = None
    scn['script'] = gen.gen_script(rng, scn['boards'], style='allpass')
    seat = rng.choice(rb.SEATS)
    t1 = gen.gen_team_name(rng)
    t2 = gen.gen_team_name(rng, forbid=[t1])
    rq = scn['requests']
    for r in rq:
        r.update(version=18, linger=False, kind='scripted')
        r.pop('impatient', None)
    if task['seed'] % 2 == 0:
        # two acceptable requests for the same seat
        rq[0].update(seat=seat, team=t1)
        rq[1].update(seat=seat, team=t1)
        what = 'two requests for one seat'
    else:
        # partners under different team names
        rq[0].update(seat=seat, team=t1)
        rq[1].update(seat=rb.partner(seat), team=t2)
        what = 'partners under different team names'
    scn['connect_order'] = list(range(len(rq)))
    base = session.default_sched()
    base['label'] = 'fifo'
    info, sample, _ = run_one(scn, base, props, st, findings, 's2race:fifo')
    points = 0
    LINES = 45
    if not findings:
        pts = [r for r in info['roles'] if r.startswith('pt:')][:3]
        for role in pts:
            for m in range(1, LINES + 1):
                sched = dict(base)
                sched['stalls'] = [{'role': role, 'index': None, 'duration': None,
                                    'after_kind': None, 'after_n': None, 'after_obj': None,
                                    'lines': m, 'origin': 'start:network_bridge/server.py'}]
                sched['label'] = 'fifo+linestall'
                s1.set_budgets(sched, info)
                run_one(scn, sched, props, st, findings, 's2race:linestall')
                points += 1
                if len(findings) > 10:
                    break
            if len(findings) > 10:
                break
    st['exhaustive'] = {'requests': len(rq), 'competing_pair': what,
                        'line_stall_points_enumerated': points,
                        'what': 'one admission storm opened by a competing pair: each of the '
                                'first three connection threads frozen at every one of its first '
                                f'{LINES} source lines of server.py until all else has quiesced'}
    seen = set()
    keep = []
    for f in findings:
        if f['key'] not in seen:
            seen.add(f['key'])
            keep.append(f)
    return {'stats': st, 'findings': keep[:10], 'samples': [sample], 'nfindings': len(findings)}
