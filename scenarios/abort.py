"""S3: abort scenarios.  An S1 scenario plus exactly one abort cause at a chosen point: an
offending client action (illegal call, malformed call, malformed card, card not held) or an
operator interrupt (KeyboardInterrupt in the server's main thread at a blocking point inside the
auction or the play).  Evaluated: C13, C12 (on the artefact), prefix-safety of C10.

Also the `vanish` variant for C19: one client closes its connection mid-session and only that
connection's PlayerThread is required to stop reading with an error."""
from __future__ import annotations

import copy
import json
import random

from model import refbridge as rb
from model import protocol as proto
from oracles import session_oracle as so
from oracles import probes as pr
from scenarios import gen, session, s1
from sim import parserec

OFFEND_KINDS = ('illegal-call', 'malformed-call', 'malformed-card', 'card-not-held',
                'wrong-seat-call', 'wrong-seat-card')


def kinds_for(phase):
    if phase == 'call':
        return ('illegal-call', 'malformed-call', 'wrong-seat-call')
    return ('malformed-card', 'card-not-held', 'wrong-seat-card')


def abort_points(scn):
    """All (board, phase, index, actor seat) decision points of the scripted session."""
    pts = []
    for b, (bd, sc) in enumerate(zip(scn['boards'], scn['script'])):
        a = rb.Auction(bd['dealer'])
        for i, c in enumerate(sc['calls']):
            pts.append((b, 'call', i, a.turn))
            a.apply(c)
        res = a.result()
        if res['declarer'] is None:
            continue
        p = rb.Play(bd['deal'], res['declarer'], res['denom'])
        for i, c in enumerate(sc['cards']):
            pts.append((b, 'card', i, p.actor()))
            p.apply(c)
    return pts


def model_at(scn, b, phase, index):
    bd = scn['boards'][b]
    sc = scn['script'][b]
    a = rb.Auction(bd['dealer'])
    if phase == 'call':
        for c in sc['calls'][:index]:
            a.apply(c)
        return a, None
    for c in sc['calls']:
        a.apply(c)
    res = a.result()
    p = rb.Play(bd['deal'], res['declarer'], res['denom'])
    for c in sc['cards'][:index]:
        p.apply(c)
    return a, p


def offending_line(rng, scn, b, phase, index, kind):
    """A raw line for the actor at that point, or None if this kind is impossible there."""
    a, p = model_at(scn, b, phase, index)
    if phase == 'call':
        seat = a.turn
        name = rb.SEAT_NAMES[seat]
        if kind == 'illegal-call':
            bad = [c for c in rb.CALLS if not a.legal(c)]
            if not bad:
                return None
            c = rng.choice(bad)
            body = {'X': 'doubles', 'XX': 'redoubles'}.get(c, 'bids ' + c)
            return f'{name} {body}'
        if kind == 'malformed-call':
            return rng.choice([f'{name} bids 8C', f'{name} bids', f'{name} bids 1Z', f'{name} hops',
                               f'{name}', '', f'{name} bids 0NT', 'garbage', f'{name} passes by',
                               f'{name} plays C2'])
        if kind == 'wrong-seat-call':
            other = rb.SEAT_NAMES[rb.left(seat)]
            return f'{other} passes'
        return None
    seat = p.turn
    name = rb.SEAT_NAMES[seat]
    if kind == 'malformed-card':
        return rng.choice([f'{name} plays 1C', f'{name} plays', f'{name} plays ZZ',
                           f'{name} plays 10C', f'{name} plays', f'{name} passes', 'garbage',
                           f'{name} plays CC', f'{name} plays 22'])
    if kind == 'card-not-held':
        held = p.hands[seat]
        pool = [c for c in rb.CARDS if c not in held]
        if not pool:
            return None
        c = rng.choice(pool)
        return f'{name} plays {c[1]}{c[0]}'
    if kind == 'wrong-seat-card':
        other = rb.left(seat)
        held = sorted(p.hands[seat])
        if not held:
            return None
        c = held[0]
        return f'{rb.SEAT_NAMES[other]} plays {c[1]}{c[0]}'
    return None


def make_abort_scn(rng, base, point, kind):
    b, phase, index, actor = point
    raw = offending_line(rng, base, b, phase, index, kind)
    if raw is None:
        return None
    scn = copy.deepcopy(base)
    scn['family'] = 'S3'
    scn['seats'][actor]['kind'] = 'scripted'
    scn['abort'] = {'kind': 'offend', 'what': kind, 'seat': actor, 'board': b, 'phase': phase,
                    'index': index, 'raw': raw,
                    # the misbehaving program crashes right after its offending action: its
                    # connection is closed (reset, when it had unread data) by the time the table
                    # manager tries to tell it so
                    'crash': rng.random() < 0.3}
    return scn


def leave_points(scn):
    """Points at which a seat may walk away: every decision point plus the start of every deal."""
    pts = [(b, 'deal', 0) for b in range(len(scn['boards']))]
    pts += [(b, ph, i) for b, ph, i, _ in abort_points(scn)]
    return pts


def make_leave_scn(base, point, seat):
    """`seat`'s client closes its connection when the session reaches `point` (whoever is to act
    there); the operator interrupts the table manager once everything has come to a standstill."""
    scn = copy.deepcopy(base)
    scn['family'] = 'S3'
    scn['seats'][seat]['kind'] = 'scripted'
    scn['abort'] = {'kind': 'leave', 'what': 'client-leaves+interrupt', 'seat': seat,
                    'board': point[0], 'phase': point[1], 'index': point[2]}
    return scn


def gen_base(rng, nboards=None):
    nb = nboards if nboards is not None else rng.choice((1, 2, 2, 3))
    table = rng.choice(('bundled', 'scripted', 'mixed'))
    scn = gen.gen_s1(rng, nboards=nb, table=table)
    scn['prelude'] = None       # abort scenarios are about one table manager
    scn['decision_seed'] = rng.randrange(1 << 40)
    return scn


# ---------------------------------------------------------------------------------------------
# oracle
# ---------------------------------------------------------------------------------------------

def server_consumed(run):
    """CALL/CARD lines the server's main thread actually took from its queues, in order."""
    out = []
    for dec, now, role, kind, obj, detail in run.sim.log:
        if role == 'server' and kind == 'q.get' and isinstance(detail, str):
            out.append(detail)
    return out


def boards_written_expected(run, an):
    """Number of boards the table manager finished before it abandoned the session, derived from
    what its main thread consumed (a card sent but never taken does not complete a board)."""
    scn = run.scn
    boards = scn['boards']
    msgs = server_consumed(run)
    if not msgs and not any(e[2] == 'server' and e[3] == 'q.get' for e in run.sim.log):
        return an.complete_boards, None
    b = 0
    done = 0
    a = rb.Auction(boards[0]['dealer']) if boards else None
    p = None
    for m in msgs:
        if b >= len(boards):
            break
        tok = proto.tokenize(m)
        if p is None:
            if tok[0] != 'CALL' or tok[1] != a.turn or not a.legal(tok[2]):
                break
            a.apply(tok[2])
            if a.done:
                res = a.result()
                if res['declarer'] is None:
                    done += 1
                    b += 1
                    if b < len(boards):
                        a = rb.Auction(boards[b]['dealer'])
                else:
                    p = rb.Play(boards[b]['deal'], res['declarer'], res['denom'])
        else:
            if tok[0] != 'CARD' or tok[1] != p.turn or not p.holds(tok[2]):
                break
            p.apply(tok[2])
            if p.done:
                done += 1
                b += 1
                p = None
                if b < len(boards):
                    a = rb.Auction(boards[b]['dealer'])
    return done, msgs


def check_c13(run, an):
    """Conditional on the table manager having abandoned the session."""
    if run.server_exc is None:
        return False
    want, _ = boards_written_expected(run, an)
    if an.records is None:
        an.add('C13', 'log-unparseable',
               f'session abandoned ({run.server_exc[0]}: {run.server_exc[1][:80]}) after {want} '
               f'finished board(s); the file left behind is unusable: {an.log_json_error}; '
               f'tail: {(run.log_text or "")[-60:]!r}',
               key='log-unparseable')
        return True
    recs = an.records
    if len(recs) != want:
        an.add('C13', 'log-count', f'{len(recs)} record(s) in the log, {want} board(s) were '
                                   f'finished before the abort', key='log-count')
    for i, r in enumerate(recs[:len(an.model_records)]):
        e = an.model_records[i]
        for k in so.C08_KEYS + ('score_type', 'dda'):
            if k == 'dda':
                # "each of them whole": the double-dummy table is the board's own, or absent
                if isinstance(r, dict) and r.get('dda', '<none>') != e.get('dda', '<none>'):
                    an.add('C13', 'log-record', f'board {i} field dda: log has '
                                                f'{json.dumps(r.get("dda"))[:160]}, the board\'s '
                                                f'own table is {json.dumps(e.get("dda"))[:160]}',
                           key='log-record:dda')
                    break
                continue
            if not isinstance(r, dict) or r.get(k, '<missing>') != e[k]:
                got = r.get(k, '<missing>') if isinstance(r, dict) else r
                an.add('C13', 'log-record', f'board {i} field {k}: log has '
                                            f'{json.dumps(got)[:200]}, expected '
                                            f'{json.dumps(e[k])[:200]}', key=f'log-record:{k}')
                break
    return True


def check_clients_after_exit(run, an):
    """C19, receiver side of the bundled client and the PlayerThreads: once the table manager's
    process has exited (abort) its connections are closed; every reader on them must stop with an
    error -- neither spin on end-of-stream nor stay blocked."""
    sim = run.sim
    if 'server' not in sim.proc_exited:
        return
    for t in sim.threads:
        if not (t.role.startswith('client:') or t.role.startswith('req:') or
                t.role.startswith('fill:')):
            continue
        if t.spin:
            an.add('C19', 'eof-spin', f'{t.role} read end-of-stream {sim.spin_limit}+ times in a '
                                      f'row after the table manager had gone instead of stopping '
                                      f'with an error', key='eof-spin')
        elif not t.finished and t.op in ('recv.wait',):
            an.add('C19', 'eof-block', f'{t.role} still waits on a connection whose peer process '
                                       f'has exited', key='eof-block')


def evaluate(run, props):
    eval_props = tuple(p for p in props if p in ('C10', 'C12', 'C19'))
    an = so.analyse(run)
    if 'C10' in eval_props:
        so.check_c10(an)
    if 'C12' in eval_props:
        so.check_c12(an)
    if 'C19' in eval_props:
        so.check_c19a(an)
        check_clients_after_exit(run, an)
    aborted = check_c13(run, an) if 'C13' in props else (run.server_exc is not None)
    return an, aborted


# ---------------------------------------------------------------------------------------------
# tasks
# ---------------------------------------------------------------------------------------------

INTERRUPT_KINDS = ('q.get', 'sleep', 'bar.wait', 'ev.wait', 'cv.wait', 'sem.acq', 'lk.acq',
                   'rl.acq', 'thread.join')


def interrupt_points(info):
    """Operator interrupts are injected at the main thread's blocking points that lie inside the
    board loop (i.e. after the log file was opened): every blocking operation from the first
    `put` of the first board's header on -- the queue reads of the auction and the play, the
    per-trick sleeps, and the rendezvous waits of `deal`.  `pre` holds, per kind, how many such
    operations the main thread performed before that first put (admission, seating)."""
    kinds = info['kinds'].get('server', {})
    pre = info.get('server_pre_open') or {}
    out = []
    for k in INTERRUPT_KINDS:
        # n counts from the main thread's first queue put on, so that the point does not move
        # when a schedule makes the admission phase take more or fewer operations
        for n in range(0, kinds.get(k, 0) - pre.get(k, 0)):
            out.append({'role': 'server', 'kind': k, 'n': n, 'anchor': 'q.put'})
    return out


def gen_interrupt(rng, info):
    """An operator interrupt at a main-thread blocking point inside the board loop."""
    choices = interrupt_points(info)
    if not choices:
        return None
    return dict(rng.choice(choices))


def all_interrupts(info):
    return interrupt_points(info)


def server_pre_open(run):
    """per kind: number of operations of the server's MAIN thread before the first queue put of
    the table manager's process (by the main thread itself, or by a thread it started that is not
    a connection thread -- a tree may run the session on a worker and keep the main thread
    waiting; the operator's Ctrl-C still lands in the main thread)"""
    pre = {}
    for dec, now, role, kind, obj, detail in run.sim.log:
        if kind == 'q.put' and (role == 'server' or role.startswith('aux:')):
            break
        if role != 'server':
            continue
        pre[kind] = pre.get(kind, 0) + 1
    return pre


def run_one(scn, sched, props, st, findings, label):
    """One abort run in an isolated child; folds its statistics and findings into st / findings
    and returns (sample, summary)."""
    from harness import isolate
    r = isolate.call(exec_one, scn, sched, props, label)
    s1.merge_stats(st, r['st'])
    findings.extend(r['findings'])
    return r['sample'], r['summary']


def exec_pilot(base):
    pilot = session.run_session(base, session.default_sched())
    info = s1.pilot_info(pilot)
    info['accepts'] = sum(1 for e in pilot.sim.log if e[3] == 'accepted')
    info['server_pre_open'] = server_pre_open(pilot)
    session.cleanup(pilot)
    return info


def exec_one(scn, sched, props, label):
    st = s1.new_stats()
    findings = []
    parserec.reset()
    run = session.run_session(scn, sched)
    an, aborted = evaluate(run, props)
    bp, windows = pr.barrier_probes(run.sim)
    for k, v in bp.items():
        run.sim.probes[k] = v
    s1.add_run_stats(st, run, an, windows, label)
    ab = scn.get('abort') or {}
    what = ab.get('what') or ('interrupt' if sched.get('interrupt') else 'none')
    if aborted:
        st['extra']['aborted_runs'] = st['extra'].get('aborted_runs', 0) + 1
        st['faults']['abort.' + what] = st['faults'].get('abort.' + what, 0) + 1
        if sched.get('interrupt'):
            ik = 'interrupt_at.' + str(sched['interrupt'].get('kind'))
            st['faults'][ik] = st['faults'].get(ik, 0) + 1
        st['extra']['logs_with_%d_records' % (len(an.records) if an.records is not None else -1)] = \
            st['extra'].get('logs_with_%d_records' % (len(an.records) if an.records is not None
                                                      else -1), 0) + 1
    else:
        st['extra']['not_aborted_runs'] = st['extra'].get('not_aborted_runs', 0) + 1
    for f in an.findings:
        if f.prop in props:
            findings.append(s1.finding_record(f, scn, sched, run, family='S3'))
    sample = {'boards': len(scn['boards']), 'abort': ab or sched.get('interrupt'),
              'schedule': sched.get('label'), 'server_exception': run.server_exc[0] + ': ' +
              run.server_exc[1][:80] if run.server_exc else None,
              'records_in_log': len(an.records) if an.records is not None else None,
              'log_tail': (run.log_text or '')[-24:]}
    res = {'st': st, 'findings': findings, 'sample': sample,
           'summary': {'outcome': run.outcome, 'digest': run.digest,
                       'decisions': run.sim.decisions}}
    session.cleanup(run)
    return res


def run_task(task):
    props = tuple(task['props'])
    rng = random.Random(f's3/{task["seed"]}')
    st = s1.new_stats()
    findings = []
    samples = []
    base = gen_base(rng, task.get('nboards'))
    pts = abort_points(base)
    # pilot for stall placement / interrupt points
    from harness import isolate
    info = isolate.call(exec_pilot, base)
    if task['type'] == 's3':
        n = task.get('n', 4)
        for j in range(n):
            sched = s1.gen_sched(rng, info)
            r = rng.random()
            if r < 0.2:
                # a client walks away (any seat, any point); when the table manager hangs on it
                # -- at once if that seat is needed, at the next deal if it is not (dummy) -- the
                # operator interrupts
                lp = leave_points(base)
                pt = rng.choice(lp)
                scn = make_leave_scn(base, pt, rng.choice(rb.SEATS))
                sched['interrupt_on_hang'] = True
            elif r < 0.45:
                it = gen_interrupt(rng, info)
                if it is None:
                    continue
                sched['interrupt'] = it
                scn = copy.deepcopy(base)
                scn['family'] = 'S3'
                scn['abort'] = {'kind': 'interrupt', 'what': 'interrupt'}
            else:
                if not pts:
                    continue
                pt = rng.choice(pts)
                kinds = kinds_for(pt[1])
                scn = make_abort_scn(rng, base, pt, rng.choice(kinds))
                if scn is None:
                    continue
                if scn['abort'].get('crash'):
                    # should the table manager come to a standstill instead of abandoning the
                    # session (it could not reach the program that had crashed), the operator
                    # interrupts it: the log must be complete then as well
                    sched['interrupt_on_hang'] = True
            sample, _ = run_one(scn, sched, props, st, findings, 's3:' + sched['label'])
            if len(samples) < 2:
                samples.append(sample)
    else:
        # enumeration: every abort point of this base scenario x every kind possible there, and
        # every main-thread blocking point for the interrupt, each under fifo and one perturbed
        # schedule
        # (one base scenario is enumerated by three tasks -- part = offend | interrupt | leave --
        # that share its seed, so that no single task runs for many minutes)
        part = task.get('part')
        npoints = 0
        for pt in (pts if part in (None, 'offend') else ()):
            for kind in kinds_for(pt[1]):
                scn = make_abort_scn(rng, base, pt, kind)
                if scn is None:
                    continue
                npoints += 1
                for sched in (session.default_sched(), s1.gen_sched(rng, info)):
                    sched.setdefault('label', 'fifo')
                    sample, _ = run_one(scn, sched, props, st, findings, 's3e:' + sched['label'])
                    if len(samples) < 2:
                        samples.append(sample)
        nleave = 0
        for pt in (leave_points(base) if part in (None, 'leave') else ()):
            for seat in rb.SEATS:
                scn = make_leave_scn(base, pt, seat)
                sched = session.default_sched()
                sched['label'] = 'fifo'
                sched['interrupt_on_hang'] = True
                nleave += 1
                run_one(scn, sched, props, st, findings, 's3e:leave')
        nint = 0
        for it in (all_interrupts(info) if part in (None, 'interrupt') else ()):
            scn = copy.deepcopy(base)
            scn['family'] = 'S3'
            scn['abort'] = {'kind': 'interrupt', 'what': 'interrupt'}
            sched = session.default_sched()
            sched['label'] = 'fifo'
            sched['interrupt'] = it
            nint += 1
            run_one(scn, sched, props, st, findings, 's3e:interrupt')
        st['exhaustive'] = {'base_seed': task['seed'], 'part': part or 'all',
                            'boards': len(base['boards']),
                            'decision_points': len(pts), 'offending_points_x_kinds': npoints,
                            'interrupt_points': nint, 'leave_points_x_seats': nleave}
    return {'stats': st, 'findings': findings[:20], 'samples': samples, 'nfindings': len(findings)}


def run_plan(plan, prop):
    from harness import isolate
    return isolate.call(exec_plan, plan, prop)


def exec_plan(plan, prop):
    parserec.reset()
    run = session.run_session(plan['scenario'], plan['sched'])
    if plan.get('variant') == 'vanish':
        an = so.analyse(run)
        check_vanish(run, an)
    else:
        an, _ = evaluate(run, (prop,))
    fs = [s1.finding_record(f, plan['scenario'], plan['sched'], run, family='S3')
          for f in an.findings if f.prop == prop]
    for f in fs:
        if plan.get('variant'):
            f['plan']['variant'] = plan['variant']
    summary = {'outcome': run.outcome, 'digest': run.digest, 'decisions': run.sim.decisions}
    session.cleanup(run)
    return fs, summary


# ---------------------------------------------------------------------------------------------
# vanish (C19): a client closes its connection mid-session
# ---------------------------------------------------------------------------------------------

def check_vanish(run, an):
    """The PlayerThread whose peer closed must stop reading with an error: it must not spin on
    end-of-stream and must not block forever on that connection."""
    ab = run.scn.get('abort') or {}
    seat = ab.get('seat')
    v = an.seated.get(seat)
    if v is None:
        # the peer went away before it was seated (in the middle of its connecting line): look
        # the connection up by who opened it
        v = next((x for x in an.views.values() if x.client_role == f'client:{seat}'), None)
    if v is None:
        return
    # which pt thread served that connection: accept order
    role = f'pt:{v.accept_index}' if v.accept_index is not None else None
    t = next((t for t in run.sim.threads if t.role == role), None)
    if t is None:
        return
    if t.spin:
        an.add('C19', 'eof-spin', f'{role} (serving {seat}, whose client closed the connection) '
                                  f'read end-of-stream {run.sim.spin_limit}+ times in a row '
                                  f'instead of stopping with an error', key='eof-spin')
    elif not t.finished:
        if t.op == 'recv.wait':
            an.add('C19', 'eof-block', f'{role} still waits on a connection that is at '
                                       f'end-of-stream', key='eof-block')
    elif t.exc is None:
        # the thread returned normally: acceptable only if it noticed the error some other way
        pass


def exec_vanish(scn, sched, props):
    st = s1.new_stats()
    findings = []
    parserec.reset()
    run = session.run_session(scn, sched)
    an = so.analyse(run)
    check_vanish(run, an)
    s1.add_run_stats(st, run, an, (), 'vanish:' + sched['label'])
    st['faults']['peer_close'] = st['faults'].get('peer_close', 0) + 1
    for f in an.findings:
        if f.prop in props:
            fr = s1.finding_record(f, scn, sched, run, family='S3')
            fr['plan']['variant'] = 'vanish'
            findings.append(fr)
    sample = {'vanish': scn['abort'], 'outcome': run.outcome,
              'blocked': run.sim.blocked_final[:5]}
    session.cleanup(run)
    return {'st': st, 'findings': findings, 'sample': sample}


def run_vanish(task):
    from harness import isolate
    props = tuple(task['props'])
    rng = random.Random(f'vanish/{task["seed"]}')
    st = s1.new_stats()
    findings = []
    samples = []
    base = gen_base(rng, 1)
    pts = abort_points(base)
    for j in range(task.get('n', 3)):
        if not pts:
            break
        pt = rng.choice(pts)
        scn = copy.deepcopy(base)
        scn['family'] = 'S3'
        scn['seats'][pt[3]]['kind'] = 'scripted'
        scn['abort'] = {'kind': 'vanish', 'what': 'vanish', 'seat': pt[3], 'board': pt[0],
                        'phase': pt[1], 'index': pt[2]}
        if rng.random() < 0.35:
            # the peer goes away while its very first line is still on its way: before the first
            # byte, somewhere inside "Connecting ... version 18", or right after its CR
            scn['abort'].update(board=0, phase='connect', index=rng.choice(
                (0, 1, rng.randint(2, 40), rng.randint(2, 60), 10 ** 6 - 1)))
        sched = session.default_sched() if j == 0 else s1.gen_sched(
            rng, {'decisions': 3000, 'steps': 3000, 'bytes': 20000, 'now': 20.0, 'messages': 600,
                  'roles': ['server', 'pt:0', 'pt:1', 'pt:2', 'pt:3'], 'nstable': {}, 'kinds': {}})
        sched.setdefault('label', 'fifo')
        r = isolate.call(exec_vanish, scn, sched, props)
        s1.merge_stats(st, r['st'])
        findings.extend(r['findings'])
        if len(samples) < 1:
            samples.append(r['sample'])
    return {'stats': st, 'findings': findings[:10], 'samples': samples, 'nfindings': len(findings)}
