"""A small fork-based worker pool of our own: dynamic task distribution through a shared counter,
results as JSON lines over pipes, each worker pinned to one CPU (baton hand-offs between two OS
threads are ~6x cheaper on one core), per-task wall-clock watchdog in the parent, and respawn
of a worker that died or was killed.  Results are keyed by task index, so the aggregate does not
depend on which worker ran what."""
from __future__ import annotations

import json
import multiprocessing
import os
import select
import signal
import sys
import time
import traceback


def _worker(wid, cpu, counter, ntasks, tasks, fn, wfd, init):
    try:
        try:
            os.sched_setaffinity(0, {cpu})
        except (AttributeError, OSError):
            pass
        out = os.fdopen(wfd, 'w', buffering=1, encoding='utf-8')
        if init is not None:
            try:
                init()
            except BaseException as e:  # noqa
                out.write(json.dumps({'init_error': f'{type(e).__name__}: {e}\n' +
                                      traceback.format_exc(limit=12)}) + '\n')
                out.flush()
                return
        while True:
            with counter.get_lock():
                i = counter.value
                counter.value += 1
            if i >= ntasks:
                break
            out.write(json.dumps({'start': i}) + '\n')
            out.flush()
            t0 = time.time()
            try:
                res = fn(tasks[i])
                rec = {'done': i, 'result': res, 'wall': time.time() - t0}
            except BaseException as e:  # noqa
                rec = {'done': i, 'error': f'{type(e).__name__}: {e}',
                       'traceback': traceback.format_exc(limit=20), 'wall': time.time() - t0}
            out.write(json.dumps(rec) + '\n')
            out.flush()
            if isinstance(rec.get('result'), dict) and rec['result'].get('poisoned'):
                break      # a simulated thread is still running in this process: retire it
        out.write(json.dumps({'bye': wid}) + '\n')
        out.flush()
    finally:
        os._exit(0)


class Pool:
    def __init__(self, nworkers=None, task_timeout=300.0, init=None):
        ncpu = len(os.sched_getaffinity(0)) if hasattr(os, 'sched_getaffinity') else \
            (os.cpu_count() or 1)
        self.cpus = sorted(os.sched_getaffinity(0)) if hasattr(os, 'sched_getaffinity') else \
            list(range(ncpu))
        self.nworkers = max(1, min(nworkers or ncpu, 64))
        self.task_timeout = task_timeout
        self.init = init

    def run(self, fn, tasks, deadline=None, on_result=None):
        """Run fn(task) for every task.  Returns (results, errors): results[i] is fn's return
        value or None; errors is a list of (index, message).  Tasks not started before `deadline`
        (time.time() value) are skipped and reported in neither list."""
        ntasks = len(tasks)
        results = [None] * ntasks
        errors = []
        if ntasks == 0:
            return results, errors
        ctx = multiprocessing.get_context('fork')
        counter = ctx.Value('i', 0)
        limit = ctx.Value('i', ntasks)
        workers = {}   # fd -> dict(pid, wid, buf, current, t_start)

        def spawn(wid):
            r, w = os.pipe()
            sys.stdout.flush()
            sys.stderr.flush()
            pid = os.fork()
            if pid == 0:
                os.close(r)
                for fd in list(workers):
                    try:
                        os.close(fd)
                    except OSError:
                        pass
                signal.signal(signal.SIGINT, signal.SIG_DFL)
                _worker(wid, self.cpus[wid % len(self.cpus)], counter, ntasks, tasks, fn, w,
                        self.init)
                os._exit(0)
            os.close(w)
            workers[r] = {'pid': pid, 'wid': wid, 'buf': b'', 'current': None, 't_start': None}

        n = min(self.nworkers, ntasks)
        for wid in range(n):
            spawn(wid)
        stopped = False
        while workers:
            if deadline is not None and not stopped and time.time() > deadline:
                # stop handing out new tasks
                with counter.get_lock():
                    self.skipped_from = counter.value
                    counter.value = max(counter.value, ntasks)
                stopped = True
            rl, _, _ = select.select(list(workers), [], [], 1.0)
            now = time.time()
            for fd in rl:
                w = workers[fd]
                try:
                    data = os.read(fd, 1 << 16)
                except OSError:
                    data = b''
                if not data:
                    self._reap(fd, workers, errors, spawn, counter, ntasks)
                    continue
                w['buf'] += data
                while b'\n' in w['buf']:
                    line, w['buf'] = w['buf'].split(b'\n', 1)
                    try:
                        msg = json.loads(line)
                    except ValueError:
                        continue
                    if 'start' in msg:
                        w['current'] = msg['start']
                        w['t_start'] = now
                    elif 'done' in msg:
                        i = msg['done']
                        w['current'] = None
                        if 'error' in msg:
                            errors.append((i, msg['error'] + '\n' + msg.get('traceback', '')))
                        else:
                            results[i] = msg['result']
                            if on_result is not None:
                                on_result(i, msg['result'])
                    elif 'bye' in msg:
                        w['bye'] = True
                    elif 'init_error' in msg:
                        # the worker could not initialise: stop handing out work, report once
                        if not any(i == -1 for i, _ in errors):
                            errors.append((-1, 'worker initialisation failed: ' +
                                           msg['init_error']))
                        with counter.get_lock():
                            counter.value = max(counter.value, ntasks)
            for fd, w in list(workers.items()):
                if w['current'] is not None and now - w['t_start'] > self.task_timeout:
                    errors.append((w['current'], f'task exceeded the wall-clock watchdog '
                                                 f'({self.task_timeout:.0f}s); worker killed'))
                    try:
                        os.kill(w['pid'], signal.SIGKILL)
                    except OSError:
                        pass
                    w['current'] = None
                    w['killed'] = True
        return results, errors

    def _reap(self, fd, workers, errors, spawn, counter, ntasks):
        w = workers.pop(fd)
        try:
            os.close(fd)
        except OSError:
            pass
        try:
            os.waitpid(w['pid'], 0)
        except OSError:
            pass
        if w['current'] is not None and not w.get('killed'):
            errors.append((w['current'], 'worker died while running this task'))
        # respawn if work remains and the worker did not leave in an orderly way at the end
        with counter.get_lock():
            remaining = counter.value < ntasks
        if remaining:
            spawn(w['wid'])
