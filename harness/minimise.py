"""Greedy minimisation of a failing plan while the same (property, finding key) still fails."""
from __future__ import annotations

import copy

from scenarios import gen


def _plain_net(s):
    s = copy.deepcopy(s)
    s['net'] = {'chunk': 'whole', 'latency': 'const'}
    return s


def candidates(plan):
    """Yield (description, simpler plan) pairs, most aggressive first."""
    if plan.get('family') == 'S4':
        yield from _s4_candidates(plan)
        return
    scn = plan['scenario']
    sched = plan['sched']
    fam = plan.get('family', 'S1')
    # 1. schedule: fifo + the explicit stalls only, plain network
    if sched.get('strategy') != 'fifo' or sched.get('net', {}).get('chunk', 'whole') != 'whole' \
            or sched.get('net', {}).get('latency', 'const') != 'const':
        s = _plain_net(sched)
        s['strategy'] = 'fifo'
        s['label'] = 'fifo'
        yield 'fifo+plain-net', {**plan, 'sched': s}
        s = copy.deepcopy(sched)
        s['strategy'] = 'fifo'
        yield 'fifo', {**plan, 'sched': s}
        yield 'plain-net', {**plan, 'sched': _plain_net(sched)}
        if sched.get('strategy') == 'pct':
            for order in (['EVENT', 'client:N', 'client:E', 'client:S', 'client:W',
                           'pt:0', 'pt:1', 'pt:2', 'pt:3', 'server'],
                          ['pt:0', 'pt:1', 'pt:2', 'pt:3', 'client:N', 'client:E', 'client:S',
                           'client:W', 'server']):
                s = _plain_net(sched)
                s['strategy'] = 'order'
                s['order'] = order
                yield 'fixed-order', {**plan, 'sched': s}
    # 2. stalls
    stalls = sched.get('stalls') or []
    for i in range(len(stalls)):
        s = copy.deepcopy(sched)
        del s['stalls'][i]
        yield f'drop-stall-{i}', {**plan, 'sched': s}
    for i, stl in enumerate(stalls):
        if stl.get('duration') not in (None, 1.0):
            s = copy.deepcopy(sched)
            s['stalls'][i]['duration'] = None
            yield f'idle-stall-{i}', {**plan, 'sched': s}
    # 3. boards
    nb = len(scn['boards'])
    if nb > 1 and fam in ('S1', 'S2'):
        for k in range(1, nb):
            c = copy.deepcopy(scn)
            c['boards'] = c['boards'][:k]
            c['script'] = c['script'][:k]
            yield f'first-{k}-boards', {**plan, 'scenario': c}
        for k in range(nb - 1, 0, -1):
            c = copy.deepcopy(scn)
            c['boards'] = c['boards'][k:]
            c['script'] = c['script'][k:]
            yield f'last-{nb - k}-boards', {**plan, 'scenario': c}
    # 4. all-pass auctions
    if fam in ('S1', 'S2') and scn.get('table') not in ('shipped',):
        for i, sc in enumerate(scn['script']):
            if sc['calls'] != ['Pass'] * 4:
                c = copy.deepcopy(scn)
                c['script'][i] = {'calls': ['Pass'] * 4, 'cards': [], 'style': 'allpass'}
                yield f'allpass-board-{i}', {**plan, 'scenario': c}
    # 5. seats: plain scripted players
    if fam in ('S1', 'S3') and scn.get('table') not in ('shipped',):
        if any(v['kind'] != 'scripted' or v['style'] != gen.gen_style(None, plain=True)
               for v in scn['seats'].values()):
            c = copy.deepcopy(scn)
            for v in c['seats'].values():
                v['kind'] = 'scripted'
                v['style'] = gen.gen_style(None, plain=True)
            c['table'] = 'scripted'
            yield 'plain-scripted-seats', {**plan, 'scenario': c}
            c = copy.deepcopy(scn)
            for v in c['seats'].values():
                v['kind'] = 'bundled'
            c['table'] = 'bundled'
            yield 'bundled-seats', {**plan, 'scenario': c}
    # 6. admission: drop requests
    if fam == 'S2':
        reqs = scn.get('requests') or []
        for i in range(len(reqs)):
            c = copy.deepcopy(scn)
            del c['requests'][i]
            if c.get('connect_order') is not None:
                # keep the forced arrival order consistent with the renumbered requests
                c['connect_order'] = [j - 1 if j > i else j for j in c['connect_order'] if j != i]
            yield f'drop-request-{i}', {**plan, 'scenario': c}


def _s4_candidates(plan):
    sched = plan['sched']
    if sched.get('strategy') != 'fifo' or sched.get('net', {}).get('chunk', 'whole') != 'whole':
        yield 'fifo+plain-net', {**plan, 'sched': {'strategy': 'fifo', 'seed': 0,
                                                   'net': {'chunk': 'whole', 'latency': 'const'}}}
    if plan.get('cuts'):
        yield 'no-cuts', {**plan, 'cuts': []}
    msgs = plan['msgs']
    lens = [len((m[0] + '\r\n').encode('utf-8')) for m in msgs]
    if len(msgs) > 1:
        # drop the last message if the stream ends before it starts
        if plan['eof'] <= sum(lens[:-1]):
            yield 'drop-last-message', {**plan, 'msgs': msgs[:-1]}
        # drop the first message if it was delivered completely
        if plan['eof'] >= lens[0]:
            cuts = plan.get('cuts')
            if cuts:
                cuts = [c - lens[0] for c in cuts if c > lens[0]]
            yield 'drop-first-message', {**plan, 'msgs': msgs[1:], 'eof': plan['eof'] - lens[0],
                                         'cuts': cuts}
    for i, m in enumerate(msgs):
        if m[1] != 'text' or m[0] != 'x':
            c = [list(x) for x in msgs]
            delta = lens[i] - 3
            start = sum(lens[:i])
            if plan['eof'] >= start + lens[i] or plan['eof'] <= start:
                c[i] = ['x', 'text', 'x']
                eof = plan['eof'] - delta if plan['eof'] >= start + lens[i] else plan['eof']
                if not plan.get('cuts'):
                    yield f'simplify-message-{i}', {**plan, 'msgs': c, 'eof': eof}


def minimise(plan, fails, budget=60):
    """fails(plan) -> bool.  Returns (minimal plan, list of accepted reductions, tries)."""
    accepted = []
    tries = 0
    progress = True
    while progress and tries < budget:
        progress = False
        for desc, cand in candidates(plan):
            if tries >= budget:
                break
            if cand == plan:
                continue
            tries += 1
            try:
                ok = fails(cand)
            except Exception:
                ok = False
            if ok:
                plan = cand
                accepted.append(desc)
                progress = True
                break
    return plan, accepted, tries
