"""Run one function call in a forked child and return its (picklable) result.

Why: a simulated run must be a pure function of (plan, code).  The code under test may keep
process-global state (a module-level dict shared between instances, a cache, a counter); if runs
shared one interpreter, what a run does would depend on which runs the worker happened to execute
before it, a violation found in one process would not replay in another, and minimisation would
stop at the first candidate that happens not to fail.  Forking per run gives every run the same
pristine interpreter state (the worker's state right after `worker_init`), exactly what a replay in
a fresh process sees.  It also turns a thread that never reaches a yield point (or any other hang
outside the simulator's control) into a killed child instead of a poisoned worker.

VERIF_NO_ISOLATE=1 runs the call in-process (debugging only)."""
from __future__ import annotations

import os
import pickle
import select
import signal
import sys
import time
import traceback


class IsolatedCallError(Exception):
    """the child raised, died, or exceeded its wall-clock limit (a harness error, never a
    property violation)"""


def call(fn, *args, timeout=240.0, **kw):
    if os.environ.get('VERIF_NO_ISOLATE'):
        return fn(*args, **kw)
    # every scratch file of the run (the table manager's log) lives in a directory that the
    # parent removes whatever becomes of the child
    import shutil
    import tempfile
    scratch = tempfile.mkdtemp(prefix='bevsim-iso-')
    old_scratch = os.environ.get('VERIF_SCRATCH')
    os.environ['VERIF_SCRATCH'] = scratch
    try:
        return _call_forked(fn, args, kw, timeout)
    finally:
        if old_scratch is None:
            os.environ.pop('VERIF_SCRATCH', None)
        else:
            os.environ['VERIF_SCRATCH'] = old_scratch
        shutil.rmtree(scratch, ignore_errors=True)


def _call_forked(fn, args, kw, timeout):
    r, w = os.pipe()
    sys.stdout.flush()
    sys.stderr.flush()
    pid = os.fork()
    if pid == 0:
        code = 0
        try:
            os.close(r)
            try:
                res = ('ok', fn(*args, **kw))
            except BaseException as e:  # noqa
                res = ('err', f'{type(e).__name__}: {e}\n{traceback.format_exc(limit=25)}')
            try:
                data = pickle.dumps(res, protocol=4)
            except Exception as e:  # noqa
                data = pickle.dumps(('err', f'result not picklable: {type(e).__name__}: {e}'))
            with os.fdopen(w, 'wb') as f:
                f.write(data)
        except BaseException:  # noqa
            code = 3
        finally:
            os._exit(code)
    os.close(w)
    chunks = []
    deadline = time.time() + timeout
    hung = False
    try:
        while True:
            left = deadline - time.time()
            if left <= 0:
                hung = True
                break
            rl, _, _ = select.select([r], [], [], min(left, 5.0))
            if rl:
                d = os.read(r, 1 << 20)
                if not d:
                    break
                chunks.append(d)
    finally:
        os.close(r)
        if hung:
            try:
                os.kill(pid, signal.SIGKILL)
            except OSError:
                pass
        try:
            os.waitpid(pid, 0)
        except OSError:
            pass
    if hung:
        raise IsolatedCallError(f'isolated call {getattr(fn, "__name__", fn)} exceeded '
                                f'{timeout:.0f}s wall clock and was killed')
    if not chunks:
        raise IsolatedCallError(f'isolated call {getattr(fn, "__name__", fn)}: child died without '
                                f'a result')
    tag, val = pickle.loads(b''.join(chunks))
    if tag == 'err':
        raise IsolatedCallError(val)
    return val
