"""Campaigns: which tasks decide which property, how results are aggregated into evidence, how
findings become VIOLATION / KNOWN-FINDING lines and replay files."""
from __future__ import annotations

import hashlib
import json
import os
import re
import subprocess
import sys
import time

ROOT = os.path.dirname(os.path.dirname(os.path.abspath(__file__)))
# the two overrides exist for tools/seeded.py only (runs against deliberately broken trees must
# not overwrite the evidence of the real tree)
EVIDENCE_DIR = os.environ.get('VERIF_EVIDENCE_DIR') or os.path.join(ROOT, 'evidence')
REPLAY_DIR = os.environ.get('VERIF_REPLAY_DIR') or os.path.join(ROOT, 'replays')
KNOWN = os.path.join(ROOT, 'known_findings.json')

CLAIMED = ('C08', 'C09', 'C10', 'C11', 'C12', 'C13', 'C19', 'C20')

REAL_COMPONENTS = [
    'bridge_env.network_bridge.server.Server', 'server.PlayerThread',
    'bridge_env.network_bridge.client.Client', 'socket_interface.MessageInterface',
    'socket_interface.SocketInterface', 'BiddingPhase', 'PlayingPhaseWithHands',
    'ObservedPlayingPhase', 'PlayingHistory', 'score.calc_score', 'Contract',
    'json_handler.writer.JsonLogWriter', 'json_handler.parser.JsonParser',
    'Bid/Card/Player/Pair/Vul/Suit/Hands value classes', 'the log file (a real file)']
STUBBED = [
    'OS thread scheduler (baton-passing controller, one real thread runs at a time)',
    'socket/TCP (sim.net.SimSocket: reliable ordered byte pipes, chunking, latency, half-close)',
    'threading.Event / queue.Queue / Barrier / Lock / Condition / Semaphore (sim.prims)',
    'threading.Thread.start/join/is_alive (patched to spawn simulated threads)',
    'time.sleep/time.time (discrete-event clock)', 'random (per-thread seeded generators)',
    'print/logging (silenced)']


def task_seed(base, prop, i):
    h = hashlib.sha256(f'{base}/{prop}/{i}'.encode()).digest()
    return int.from_bytes(h[:6], 'big')


# ---------------------------------------------------------------------------------------------
# task construction
# ---------------------------------------------------------------------------------------------

S1_PROPS = ('C08', 'C09', 'C10', 'C11', 'C12', 'C19')

SIZES = {
    # prop: tier: dict of counts
    # thorough adds the single-stall enumeration (every thread x every synchronisation operation of
    # small sessions, frozen until all else is idle) judged by this property's own oracle
    'C08': {'quick': {'s1': 320, 'm': 3, 's2': 60},
            'thorough': {'s1': 9000, 'm': 8, 's2': 1500, 'sweep': 12}},
    'C10': {'quick': {'s1': 320, 'm': 3, 's2': 60, 's3': 100},
            'thorough': {'s1': 9000, 'm': 6, 's2': 1500, 's3': 3000, 'sweep': 12}},
    'C11': {'quick': {'s1': 320, 'm': 3, 's2': 40},
            'thorough': {'s1': 9000, 'm': 6, 's2': 1000, 'sweep': 12}},
    'C12': {'quick': {'s1': 240, 'm': 2, 's3': 160}, 'thorough': {'s1': 6000, 'm': 3, 's3': 6000}},
    'C09': {'quick': {'s1': 320, 'm': 4, 's2': 120, 'sweep': 0, 'midsweep': 0},
            'thorough': {'s1': 8000, 'm': 8, 's2': 3000, 'sweep': 48, 'midsweep': 12,
                         's2sweep': 16}},
    'C13': {'quick': {'s3': 700}, 'thorough': {'s3enum': 120, 's3': 4000}},
    'C19': {'quick': {'s4': 600, 's1': 120, 'm': 2, 'vanish': 80, 's3': 60},
            'thorough': {'s4enum': 400, 's4': 20000, 's1': 3000, 'm': 3, 'vanish': 2000,
                         's3': 2000}},
    'C20': {'quick': {'s2': 500, 's2race': 4},
            'thorough': {'s2': 12000, 's2enum': 40, 's2sweep': 32, 's2race': 48}},
}


def build_tasks(prop, tier, seed):
    """Tasks in the order the families are listed in SIZES (primary family first)."""
    sz = SIZES[prop][tier]
    tasks = []
    n = 0
    for fam, count in sz.items():
        if fam == 'm':
            continue
        for i in range(count):
            t = {'seed': task_seed(seed, prop, n), 'props': [prop]}
            if fam == 's1':
                t.update(type='s1group', m=sz.get('m', 3))
                if prop == 'C09':
                    t['force'] = ('stall', 'pct', 'walk', 'stall')[i % 4]
                    t['nboards'] = (1, 2, 2, 3)[i % 4]
            elif fam == 'sweep':
                t.update(type='sweep', variant=i)
            elif fam == 's3enum':
                # three tasks per base scenario (same seed): offending actions, interrupts, leaves
                t.update(type='s3enum', seed=task_seed(seed, prop + '/s3enum', i // 3),
                         part=('offend', 'interrupt', 'leave')[i % 3])
            elif fam == 'midsweep':
                # shapes 0 (one passed-out board) and 2 (one played board) under three orders
                t.update(type='sweep', variant=(0, 2)[i % 2] + 6 * (i // 2), midcode=True)
            else:
                t['type'] = fam
            tasks.append(t)
            n += 1
    return tasks


def selftest_tasks(prop, seed, n):
    """n tasks for the determinism self-test, spread over the families this property's check
    uses (so that every seam and fault kind the check relies on is covered by the digest
    comparison, not only conforming sessions)."""
    by_fam = {}
    for t in build_tasks(prop, 'quick', task_seed(seed, 'selftest', 0)):
        by_fam.setdefault(t['type'], []).append(t)
    out = []
    i = 0
    while len(out) < n and any(by_fam.values()):
        for fam in sorted(by_fam):
            if by_fam[fam] and len(out) < n:
                t = dict(by_fam[fam].pop(0))
                if t['type'] == 's3enum':
                    t['type'] = 's3'       # an enumeration task is far too long for a self-test
                if t['type'] == 's2enum':
                    t['type'] = 's2'
                if t['type'] == 's4enum':
                    t['type'] = 's4'
                if t['type'] in ('s2sweep', 's2race'):
                    t['type'] = 's2'
                out.append({'type': 'digest', 'inner': t})
        i += 1
    return out


def worker_init():
    from sim import seams, parserec
    mods = seams.install()
    parserec.install(mods)


def run_task(task):
    t = task['type']
    if t == 's1group':
        from scenarios import s1
        return s1.run_group(task)
    if t in ('s2', 's2enum'):
        from scenarios import admission
        return admission.run_task(task)
    if t == 's2sweep':
        from scenarios import admission
        return admission.run_sweep(task)
    if t == 's2race':
        from scenarios import admission
        return admission.run_race(task)
    if t in ('s3', 's3enum'):
        from scenarios import abort
        return abort.run_task(task)
    if t in ('s4', 's4enum'):
        from scenarios import framing
        return framing.run_task(task)
    if t == 'vanish':
        from scenarios import abort
        return abort.run_vanish(task)
    if t == 'sweep':
        from scenarios import sweep
        return sweep.run_task(task)
    if t == 'digest':
        from scenarios import s1
        s1.WANT_RUN_DIGESTS[0] = True
        try:
            r = run_task(task['inner'])
        finally:
            s1.WANT_RUN_DIGESTS[0] = False
        return {'digests': r['stats'].get('run_digests') or []}
    if t == 'minimise':
        return minimise_task(task)
    if t == 'replay':
        return replay_task(task)
    raise ValueError(t)


# ---------------------------------------------------------------------------------------------
# replay and minimisation of a plan
# ---------------------------------------------------------------------------------------------

def run_plan(plan, prop):
    """Run one explicit plan (in an isolated child), evaluate the oracles of `prop`.  Returns list
    of finding dicts and a summary of the run."""
    from harness import isolate
    fam = plan.get('family', 'S1')
    if fam == 'S1':
        fs, summary, log1 = isolate.call(_exec_plan_s1, plan['scenario'], plan['sched'], prop)
        if plan.get('compare_with') is not None and prop == 'C08':
            _, _, log2 = isolate.call(_exec_plan_s1, plan['scenario'], plan['compare_with'],
                                      prop)
            try:
                same = json.loads(log1) == json.loads(log2)
            except Exception:
                same = True
            if not same:
                fs.append({'prop': 'C08', 'oracle': 'timing-dependence',
                           'key': 'timing-dependence', 'msg': 'log differs between schedules',
                           'plan': plan, 'outcome': summary['outcome'],
                           'digest': summary['digest'], 'blocked': []})
        return fs, summary
    if fam == 'S2':
        from scenarios import admission
        return admission.run_plan(plan, prop)
    if fam == 'S3':
        from scenarios import abort
        return abort.run_plan(plan, prop)
    if fam == 'S4':
        from scenarios import framing
        return isolate.call(framing.run_plan, plan, prop)
    raise ValueError(fam)


def _exec_plan_s1(scn, sched, prop):
    from scenarios import s1, session
    from sim import parserec
    parserec.reset()
    run = session.run_session(scn, sched)
    an, _ = s1.evaluate_run(run, (prop,), None)
    fs = [s1.finding_record(f, scn, sched, run) for f in an.findings if f.prop == prop]
    summary = {'outcome': run.outcome, 'digest': run.digest, 'decisions': run.sim.decisions}
    log = run.log_text
    session.cleanup(run)
    return fs, summary, log


def minimise_task(task):
    from harness import minimise as mz
    plan = task['plan']
    prop = task['prop']
    key = task['key']

    def fails(p):
        fs, _ = run_plan(p, prop)
        return any(f['key'] == key for f in fs)

    if not fails(plan):
        return {'plan': plan, 'accepted': [], 'tries': 0, 'reproduced': False}
    best, accepted, tries = mz.minimise(plan, fails, budget=task.get('budget', 60))
    fs, summary = run_plan(best, prop)
    f = [x for x in fs if x['key'] == key][0]
    return {'plan': best, 'accepted': accepted, 'tries': tries, 'reproduced': True,
            'msg': f['msg'], 'outcome': summary['outcome'], 'digest': summary['digest'],
            'blocked': f.get('blocked')}


def replay_task(task):
    fs, summary = run_plan(task['plan'], task['prop'])
    return {'findings': [{k: f[k] for k in ('prop', 'oracle', 'key', 'msg')} for f in fs],
            'summary': summary}


# ---------------------------------------------------------------------------------------------
# known findings
# ---------------------------------------------------------------------------------------------

def load_known():
    try:
        with open(KNOWN, 'r', encoding='utf-8') as f:
            return json.load(f).get('findings', [])
    except FileNotFoundError:
        return []


def match_known(known, prop, key):
    for k in known:
        if k.get('status') != 'open' or k.get('property') != prop:
            continue
        pat = k.get('key_regex')
        if pat and re.fullmatch(pat, key):
            return k
    return None


# ---------------------------------------------------------------------------------------------
# aggregation
# ---------------------------------------------------------------------------------------------

def merge_counts(dst, src):
    for k, v in src.items():
        if isinstance(v, bool):
            dst[k] = dst.get(k, False) or v
        elif isinstance(v, (int, float)):
            dst[k] = dst.get(k, 0) + v


def aggregate(results):
    agg = {'runs': 0, 'decisions': 0, 'thread_steps': 0, 'events_fired': 0, 'sim_time': 0.0,
           'outcomes': {}, 'faults': {}, 'probes': {}, 'strategies': {}, 'digests': {},
           'windows': set(), 'unknown_lines': 0, 'boards': 0, 'tables': {}, 'extra': {},
           'cov': {'calls': set(), 'cards': set(), 'headers': set(), 'voids': set(),
                   'hand_sizes': set(), 'contracts': set()},
           'compared_logs': 0, 'tasks': 0, 'exhaustive_parts': []}
    findings = []
    samples = []
    for r in results:
        if r is None:
            continue
        agg['tasks'] += 1
        st = r.get('stats') or {}
        for k in ('runs', 'decisions', 'thread_steps', 'events_fired', 'sim_time',
                  'unknown_lines', 'boards', 'compared_logs'):
            agg[k] += st.get(k, 0)
        for k in ('outcomes', 'faults', 'probes', 'strategies', 'tables', 'extra'):
            merge_counts(agg[k], st.get(k, {}))
        for d, nt in (st.get('digests') or {}).items():
            agg['digests'][d] = agg['digests'].get(d, False) or nt
        for w in st.get('windows', ()):
            agg['windows'].add(w)
        cov = st.get('cov') or {}
        for k in agg['cov']:
            for x in cov.get(k, ()):
                agg['cov'][k].add(tuple(x) if isinstance(x, list) else x)
        if st.get('exhaustive'):
            agg['exhaustive_parts'].append(st['exhaustive'])
        findings.extend(r.get('findings') or [])
        if len(samples) < 6:
            samples.extend((r.get('samples') or [])[:1])
    return agg, findings, samples
