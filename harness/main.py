from __future__ import annotations

import argparse
import json
import os
import subprocess
import sys
import time

from harness import campaign as cp
from harness.pool import Pool

DESCR = {
    'C08': 'log records exactly what was played (S1 sessions x schedules; reference model; '
           'schedule-independence of the log)',
    'C09': 'a session with four conforming clients always completes (exact deadlock detection, '
           'bounded progress after the last stall)',
    'C10': 'each seat is told exactly what it is entitled to (per-connection token streams vs '
           'model; dummy-disclosure causality)',
    'C11': 'all replicas agree with the table manager (bundled clients observed at every '
           'decision; four wire-fed observers)',
    'C12': 'session-produced JSON logs are schema-valid and read back as written',
    'C13': 'an aborted session leaves a well-formed log of the completed boards',
    'C19': 'protocol messages mean the same to both ends; framing terminates on EOF',
    'C20': 'admission seats one conforming client per seat and turns the others away',
}

LEVEL = {'C08': 'exploration', 'C09': 'exploration', 'C10': 'exploration', 'C11': 'exploration',
         'C12': 'exploration', 'C13': 'fault_enumeration', 'C19': 'fault_enumeration',
         'C20': 'exploration'}


def harness_error(msg):
    print(f'HARNESS-ERROR: {msg}', flush=True)
    return 2


def main(argv):
    ap = argparse.ArgumentParser()
    ap.add_argument('prop')
    ap.add_argument('--tier', default=os.environ.get('VERIF_TIER') or 'quick',
                    choices=('quick', 'thorough'))
    ap.add_argument('--seed', type=int, default=None)
    ap.add_argument('--replay', default=None)
    ap.add_argument('--workers', type=int, default=None)
    ap.add_argument('--scale', type=float, default=1.0, help='multiply the task counts')
    ap.add_argument('--deadline', type=float, default=None, help='wall seconds for dispatching')
    ap.add_argument('--digests', default=None, help=argparse.SUPPRESS)
    ap.add_argument('--no-selftest', action='store_true')
    a = ap.parse_args(argv)
    prop = a.prop.upper()
    if prop not in cp.CLAIMED:
        print(f'{prop} is not a claimed property (see MANIFEST.json not_applicable)')
        return 2
    seed = a.seed if a.seed is not None else int(os.environ.get('VERIF_SEED') or 0)

    if a.digests is not None:
        return digests_main(prop, seed, a.digests)
    if a.replay:
        return replay_main(prop, a.replay)
    return check_main(prop, a.tier, seed, a)


# ---------------------------------------------------------------------------------------------

def replay_main(prop, path):
    with open(path, 'r', encoding='utf-8') as f:
        rp = json.load(f)
    cp.worker_init()
    fs, summary = cp.run_plan(rp['plan'], prop)
    want_key = rp.get('key')
    hit = [f for f in fs if want_key is None or f['key'] == want_key]
    print(json.dumps({'summary': summary, 'expected_digest': rp.get('digest'),
                      'findings': [{k: f[k] for k in ('prop', 'oracle', 'key')} for f in fs]}))
    if hit:
        same = rp.get('digest') in (None, summary.get('digest'))
        print(f'REPLAY: reproduced {hit[0]["key"]} (event-log digest '
              f'{"identical" if same else "DIFFERS"}): {hit[0]["msg"][:600]}')
        print(f'VIOLATION property={prop} replay={path}')
        return 1
    print('REPLAY: the recorded violation does not occur on this tree')
    return 0


def digests_main(prop, seed, spec):
    """print the full event-log digests of the first k self-test tasks (used by the determinism
    self-test in a fresh interpreter under another PYTHONHASHSEED)"""
    k = int(spec)
    cp.worker_init()
    out = []
    for t in cp.selftest_tasks(prop, seed, SELFTEST_N)[:k]:
        out.append(cp.run_task(t)['digests'])
    print('DIGESTS ' + json.dumps(out))
    return 0


SELFTEST_N = 48


def selftest(prop, seed, tier, nworkers):
    """Determinism: the same tasks (taken from every scenario family this check uses) twice in
    different worker processes at two worker counts and once more in a fresh interpreter under
    another PYTHONHASHSEED; the full event-log digests of all their runs must agree."""
    n = 8 if tier == 'quick' else SELFTEST_N
    tasks = cp.selftest_tasks(prop, seed, SELFTEST_N)[:n]
    r1, e1 = Pool(nworkers, init=cp.worker_init).run(cp.run_task, tasks)
    r2, e2 = Pool(3, init=cp.worker_init).run(cp.run_task, list(reversed(tasks)))
    r2 = list(reversed(r2))
    if e1 or e2:
        return False, f'self-test tasks failed: {(e1 + e2)[0][1][:500]}', 0
    d1 = [r['digests'] for r in r1]
    d2 = [r['digests'] for r in r2]
    if d1 != d2:
        return False, 'event-log digests differ between two executions of the same seeds', 0
    if not all(d1):
        return False, 'a self-test task returned no digests', 0
    env = dict(os.environ)
    env['PYTHONHASHSEED'] = '4242'
    k = min(n, 4 if tier == 'quick' else 16)
    p = subprocess.run([sys.executable, os.path.join(cp.ROOT, 'check'), prop, '--seed', str(seed),
                        '--digests', str(k)], env=env, capture_output=True, text=True,
                       timeout=900)
    line = [ln for ln in p.stdout.splitlines() if ln.startswith('DIGESTS ')]
    if p.returncode != 0 or not line:
        return False, f'fresh-interpreter self-test failed: {p.stderr[-500:]}', 0
    d3 = json.loads(line[0][8:])
    if d3 != d1[:k]:
        return False, 'event-log digests differ under another PYTHONHASHSEED', 0
    fams = sorted({t['inner']['type'] for t in tasks})
    nruns = sum(len(x) for x in d1)
    return True, f'{n} tasks ({"/".join(fams)}), {nruns} runs: executed twice (16 vs 3 workers) ' \
                 f'+ {k} tasks again in a fresh interpreter under PYTHONHASHSEED=4242, all ' \
                 f'event-log digests equal', nruns


def check_main(prop, tier, seed, a):
    t0 = time.time()
    os.makedirs(cp.EVIDENCE_DIR, exist_ok=True)
    tasks = cp.build_tasks(prop, tier, seed)
    if a.scale != 1.0:
        tasks = tasks[:max(1, int(len(tasks) * a.scale))]
    deadline = None
    dl = a.deadline if a.deadline is not None else (480.0 if tier == 'quick' else 3000.0)
    deadline = t0 + dl
    pool = Pool(a.workers, task_timeout=600.0 if tier == 'quick' else 1800.0,
                init=cp.worker_init)
    print(f'[{prop}] tier={tier} seed={seed} tasks={len(tasks)} workers={pool.nworkers}',
          flush=True)
    results, errors = pool.run(cp.run_task, tasks, deadline=deadline)
    done = sum(1 for r in results if r is not None)
    if errors:
        for i, msg in errors[:3]:
            if i < 0:
                print(msg[:2000])
            else:
                print(f'task {i} ({tasks[i]["type"]} seed {tasks[i]["seed"]}): {msg[:1500]}')
        return harness_error(f'{len(errors)} task(s) failed inside the harness')
    if done == 0:
        return harness_error('no task completed')
    if done < 0.3 * len(tasks):
        # the dispatch deadline cut the batch short: something (hung runs, a grossly overloaded
        # machine) makes the check far slower than it is sized for; a fraction of the planned
        # exploration must not pass for the whole
        return harness_error(f'only {done} of {len(tasks)} tasks completed within {dl:.0f}s')
    agg, findings, samples = cp.aggregate(results)
    hung = agg['outcomes'].get('wall_hang', 0)
    if hung and prop != 'C09':
        # a simulated thread did not come back to a yield point (a blocking call or a loop the
        # simulator does not control): these runs were not evaluated.  For C09 it is reported as a
        # finding of its own (a thread that never finishes); for the other properties it is a
        # harness limitation, never silence.
        return harness_error(f'{hung} simulated run(s) hung outside the simulator\'s control '
                             f'(a thread did not reach a yield point within {60}s wall clock)')

    # determinism self-test (harness error if it fails; never a violation)
    st_ok, st_msg, st_runs = True, 'skipped', 0
    if not a.no_selftest:
        st_ok, st_msg, st_runs = selftest(prop, seed, tier, a.workers)
        if not st_ok:
            return harness_error('determinism self-test: ' + st_msg)

    known = cp.load_known()
    known_hits = {}
    new = {}
    for f in findings:
        if f['prop'] != prop:
            continue
        k = cp.match_known(known, prop, f['key'])
        if k is not None:
            known_hits.setdefault(k['id'], [k, 0])[1] += 1
        else:
            new.setdefault(f['key'], []).append(f)

    rc = 0
    violations = 0
    reports = []
    if new:
        os.makedirs(cp.REPLAY_DIR, exist_ok=True)
        keys = sorted(new, key=lambda k: -len(new[k]))[:3]
        mtasks = []
        for k in keys:
            # minimise the smallest failing plan of each kind
            f = min(new[k], key=lambda f: len(json.dumps(f['plan'])))
            mtasks.append({'type': 'minimise', 'plan': f['plan'], 'prop': prop, 'key': k,
                           'budget': 60})
        mres, merr = Pool(min(len(mtasks), pool.nworkers), task_timeout=900.0,
                          init=cp.worker_init).run(cp.run_task, mtasks)
        for k, mr, mt in zip(keys, mres, mtasks):
            if mr is None or not mr.get('reproduced'):
                return harness_error(f'violation {k} did not reproduce when re-run in another '
                                     f'process: {merr[:1]}')
            path = os.path.join(cp.REPLAY_DIR, f'{prop}-{seed}-{_slug(k)}.json')
            with open(path, 'w', encoding='utf-8') as fh:
                json.dump({'property': prop, 'key': k, 'plan': mr['plan'],
                           'digest': mr['digest'], 'outcome': mr['outcome'],
                           'message': mr['msg'], 'blocked': mr.get('blocked'),
                           'minimisation': {'accepted': mr['accepted'], 'tries': mr['tries']},
                           'found_with': {'tier': tier, 'seed': seed},
                           'occurrences_in_this_run': len(new[k])}, fh, indent=1,
                          ensure_ascii=False)
            # confirm in a fresh interpreter
            p = subprocess.run([sys.executable, os.path.join(cp.ROOT, 'check'), prop, '--replay',
                                path], capture_output=True, text=True, timeout=900)
            if p.returncode != 1 or 'digest identical' not in p.stdout:
                return harness_error(f'replay of {path} in a fresh interpreter did not reproduce '
                                     f'exactly (rc={p.returncode}): {p.stdout[-400:]} '
                                     f'{p.stderr[-400:]}')
            reports.append((k, path, mr))
        rc = 1
        violations = sum(len(v) for v in new.values())

    wall = time.time() - t0
    write_evidence(prop, tier, seed, agg, samples, wall, violations, known_hits, st_msg,
                   len(tasks), done, reports)
    for kid, (k, n) in sorted(known_hits.items()):
        print(f'KNOWN-FINDING: property={prop} {k["what"]} [{n} occurrence(s) in this run]')
    for k, path, mr in reports:
        print(f'--- {k}: {mr["msg"][:800]}')
        print(f'VIOLATION property={prop} replay={path}')
    print(f'[{prop}] {agg["runs"]} simulated runs, {agg["decisions"]} decisions, '
          f'{agg["sim_time"]:.0f} simulated s, {len(agg["digests"])} distinct sync traces, '
          f'{done}/{len(tasks)} tasks, wall {wall:.1f}s, self-test: {st_msg}', flush=True)
    return rc


def _slug(k):
    return ''.join(c if c.isalnum() else '_' for c in k)[:60]


def write_evidence(prop, tier, seed, agg, samples, wall, violations, known_hits, st_msg, ntasks,
                   done, reports):
    runs = max(agg['runs'], 1)
    distinct = len(agg['digests'])
    nontrivial = sum(1 for v in agg['digests'].values() if v)
    extra = agg['extra']
    cov = {
        'evaluations': agg['runs'],
        'distinct_nontrivial': int(extra.get('distinct_nontrivial_override', nontrivial)),
        'rule': extra_rule(prop),
        'samples': samples[:5] or [{'note': 'no sample recorded'}],
        'simulated_runs': agg['runs'],
        'runs_per_hour': round(agg['runs'] / wall * 3600) if wall > 0 else 0,
        'decisions': agg['decisions'],
        'decisions_per_second': round(agg['decisions'] / wall) if wall > 0 else 0,
        'thread_steps': agg['thread_steps'],
        'events_fired': agg['events_fired'],
        'simulated_seconds': round(agg['sim_time'], 1),
        'boards_completed': agg['boards'],
        'outcomes': agg['outcomes'],
        'strategies': agg['strategies'],
        'tables': agg['tables'],
        'fault_kinds_fired': agg['faults'],
        'probes': agg['probes'],
        'probes_unreached': [p for p in expected_probes(prop, agg['probes'])
                             if not agg['probes'].get(p)],
        'distinct_sync_trace_digests': distinct,
        'distinct_barrier_window_orderings': len(agg['windows']),
        'tasks_planned': ntasks,
        'tasks_completed': done,
        'determinism_selftest': st_msg,
        'real_components': cp.REAL_COMPONENTS,
        'stubbed_components': cp.STUBBED,
        'known_findings_seen': {kid: n for kid, (k, n) in known_hits.items()},
        'violations_reported': [{'key': k, 'replay': p} for k, p, _ in reports],
        'unclassified_status_lines_ignored': agg['unknown_lines'],
        'schedule_pairs_compared_for_log_equality': agg['compared_logs'],
        'exhaustive': False,
    }
    cov.update({k: v for k, v in extra.items() if k != 'distinct_nontrivial_override'})
    if prop == 'C19':
        c = agg['cov']
        cov['finite_domain_coverage'] = {
            'calls_x_seats': f'{len(c["calls"])}/152',
            'cards_x_seats_x_notation': f'{len(c["cards"])}/416',
            'board_headers_dealer_x_vul': f'{len(c["headers"])}/16',
            'voids_per_suit': sorted(c['voids']),
            'hand_sizes_parsed': sorted(c['hand_sizes']),
        }
    if prop in ('C08', 'C11', 'C12') and agg['cov'].get('contracts'):
        cells = agg['cov']['contracts']
        cov['scoring_cells_logged'] = {
            'contract_x_doubling_x_vulnerable_x_made_or_down': f'{len(cells)}/420',
            'contracts_x_doubling': f'{len({c.split("/")[0] for c in cells})}/105'}
    if agg['exhaustive_parts']:
        cov['enumerated_parts'] = agg['exhaustive_parts'][:20]
        cov['enumerated_parts_count'] = len(agg['exhaustive_parts'])
    ev = {
        'property_id': prop,
        'tier': tier,
        'seed': seed,
        'level': LEVEL[prop],
        'coverage': cov,
        'assumptions': [
            'pre-emption only at synchronisation operations (threading/queue primitives, socket '
            'send/recv/accept/connect/close, sleep, Thread.start/join/is_alive)',
            'TCP semantics: no loss, duplication or reordering; no disk faults',
            'simulated primitives follow CPython semantics (Event.wait modelled as enter + wake)',
            'sampling, not proof: a clean batch is evidence only',
        ],
        'wall_s': round(wall, 2),
        'violations': violations,
    }
    path = os.path.join(cp.EVIDENCE_DIR, f'{prop}.json')
    with open(path, 'w', encoding='utf-8') as f:
        json.dump(ev, f, indent=1, ensure_ascii=False, sort_keys=False)


EVENT_RENDEZVOUS_PROBES = ('early_pass', 'late_waiter', 'stale_arrival')
BARRIER_RENDEZVOUS_PROBES = ('rearrival_before_drain', 'main_trips_barrier', 'main_arrives_first')


def expected_probes(prop, seen):
    """The rendezvous probes that apply depend on what the tree under test synchronises with: the
    flag-based ones are structurally zero on a tree that uses a threading.Barrier and vice
    versa."""
    base = PROBES_EXPECTED.get(prop, ())
    if prop != 'C09':
        return base
    rv = BARRIER_RENDEZVOUS_PROBES if seen.get('barrier_trips') else EVENT_RENDEZVOUS_PROBES
    return rv + base


PROBES_EXPECTED = {
    'C09': ('passed_out_then_played', 'played_then_passed_out', 'dummy_on_lead'),
    'C08': ('passed_out', 'redoubled', 'doubled', 'dummy_on_lead', 'tricks_with_3_ruffs',
            'overruff_then_lower_ruff_above_first'),
    'C10': ('dummy_on_lead', 'passed_out'),
    'C11': ('dummy_on_lead', 'passed_out', 'redoubled'),
}


def extra_rule(prop):
    base = ('one evaluation = one simulated run (real Server + PlayerThreads + four players under '
            'one seeded schedule); scenarios and schedules are drawn from SHA-256(VERIF_SEED, '
            'property, task index); distinct = distinct SHA-1 digests of the server-side '
            'synchronisation trace (thread role, operation, object); non-trivial = at least one '
            'fault fired (stall, chunking, latency jitter, interrupt, offending action, EOF) or a '
            'barrier probe was hit in that run')
    return base
