#!/venv/bin/python
"""Run checks against the seeded breaking changes under /verif/seeded/<id>/ (patch.diff, demo.py,
meta.json).

Each patch is applied in a scratch git worktree of /repo (under /tmp, removed afterwards; /repo
itself is never touched), and the checks are pointed at it with VERIF_REPO, with evidence and
replays redirected to a scratch directory.  `--in-repo` instead applies the patch to /repo itself
(git -C /repo apply) and undoes it straight afterwards (git -C /repo checkout -- .), which is
exactly how the registered commands would meet such a change.

  tools/seeded.py verify [ids]     (a) patch applies, (b) the repository's test-suite passes with
                                   it, (c) demo.py fails with it, (d) demo.py passes without it
  tools/seeded.py run [ids] [--props C08,C09 | --all-props] [--tier quick] [--scale 1.0]

Results are merged into /verif/seeded/results.json."""
import argparse
import json
import os
import shutil
import subprocess
import sys
import tempfile
import time

ROOT = os.path.dirname(os.path.dirname(os.path.abspath(__file__)))
SEEDED = os.path.join(ROOT, 'seeded')
ALL = ['C08', 'C09', 'C10', 'C11', 'C12', 'C13', 'C19', 'C20']
PY = '/venv/bin/python'


def sh(*a, **k):
    k.setdefault('capture_output', True)
    k.setdefault('text', True)
    return subprocess.run(a, **k)


class Tree:
    """a scratch worktree of /repo's HEAD with one patch applied (or /repo itself)"""

    def __init__(self, patch, in_repo=False):
        self.patch = patch
        self.in_repo = in_repo
        self.path = None

    def __enter__(self):
        if self.in_repo:
            if sh('git', '-C', '/repo', 'status', '--porcelain', '--untracked-files=no').stdout.strip():
                raise RuntimeError('/repo has uncommitted changes')
            self.path = '/repo'
        else:
            self.path = tempfile.mkdtemp(prefix='seeded-wt-', dir='/tmp')
            os.rmdir(self.path)
            r = sh('git', '-C', '/repo', 'worktree', 'add', '-q', '--detach', self.path, 'HEAD')
            if r.returncode != 0:
                raise RuntimeError('worktree add failed: ' + r.stderr[:300])
        if self.patch:
            r = sh('git', '-C', self.path, 'apply', self.patch)
            if r.returncode != 0:
                self.__exit__(None, None, None)
                raise RuntimeError('patch does not apply: ' + r.stderr[:300])
        return self.path

    def __exit__(self, *exc):
        if self.in_repo:
            sh('git', '-C', '/repo', 'checkout', '--', '.')
        elif self.path:
            sh('git', '-C', '/repo', 'worktree', 'remove', '--force', self.path)
            shutil.rmtree(self.path, ignore_errors=True)
            sh('git', '-C', '/repo', 'worktree', 'prune')
        return False


def load_results():
    try:
        return json.load(open(os.path.join(SEEDED, 'results.json')))
    except Exception:
        return {}


def save_results(res):
    json.dump(res, open(os.path.join(SEEDED, 'results.json'), 'w'), indent=1, sort_keys=True)


def run_demo(d, tree):
    t0 = time.time()
    try:
        r = sh('timeout', '120', PY, os.path.join(d, 'demo.py'), tree,
               env=dict(os.environ, REPO_ROOT=tree, PYTHONDONTWRITEBYTECODE='1'), cwd=d)
        return r.returncode, (r.stdout + r.stderr)[-400:], round(time.time() - t0, 1)
    except Exception as e:
        return -1, str(e), round(time.time() - t0, 1)


def verify(ids, a):
    res = load_results()
    for sid in ids:
        d = os.path.join(SEEDED, sid)
        out = {}
        with Tree(None) as clean:
            rc, tail, w = run_demo(d, clean)
            out['demo_on_unchanged_tree'] = {'rc': rc, 'wall_s': w}
            if rc != 0:
                out['demo_on_unchanged_tree']['tail'] = tail
        try:
            with Tree(os.path.join(d, 'patch.diff')) as tree:
                out['patch_applies'] = True
                r = sh(PY, '-m', 'pytest', '-q', '-p', 'no:cacheprovider', '--timeout=900', '-x',
                       cwd=tree, env=dict(os.environ, PYTHONDONTWRITEBYTECODE='1'))
                out['suite_with_patch'] = {'rc': r.returncode,
                                           'tail': r.stdout.strip().splitlines()[-1:]}
                rc, tail, w = run_demo(d, tree)
                out['demo_with_patch'] = {'rc': rc, 'wall_s': w, 'tail': tail[-300:]}
        except RuntimeError as e:
            out['patch_applies'] = False
            out['error'] = str(e)
        ok = out.get('patch_applies') and out['suite_with_patch']['rc'] == 0 and \
            out['demo_with_patch']['rc'] not in (0,) and out['demo_on_unchanged_tree']['rc'] == 0
        out['confirmed'] = bool(ok)
        res.setdefault(sid, {})['verify'] = out
        print(sid, 'CONFIRMED' if ok else 'NOT CONFIRMED', json.dumps(out)[:600], flush=True)
        save_results(res)
    return 0


def run(ids, a):
    res = load_results()
    for sid in ids:
        d = os.path.join(SEEDED, sid)
        meta = json.load(open(os.path.join(d, 'meta.json')))
        props = a.props.split(',') if a.props else (ALL if a.all_props else [meta['property']])
        scratch = tempfile.mkdtemp(prefix='seeded-ev-', dir='/tmp')
        try:
            with Tree(os.path.join(d, 'patch.diff'), a.in_repo) as tree:
                env = dict(os.environ, VERIF_EVIDENCE_DIR=os.path.join(scratch, 'ev'),
                           VERIF_REPLAY_DIR=os.path.join(scratch, 'rp'), VERIF_REPO=tree)
                for p in props:
                    t0 = time.time()
                    cmd = [os.path.join(ROOT, 'check'), p, '--tier', a.tier, '--scale', a.scale]
                    if a.no_selftest:
                        cmd.append('--no-selftest')
                    if a.seed is not None:
                        cmd += ['--seed', str(a.seed)]
                    c = sh(*cmd, env=env, cwd=ROOT)
                    lines = c.stdout.splitlines()
                    viol = [ln for ln in lines if ln.startswith('VIOLATION')]
                    heads = [ln[:400] for ln in lines if ln.startswith('--- ')]
                    slot = 'checks' if a.seed is None else f'checks_seed_{a.seed}'
                    res.setdefault(sid, {}).setdefault(slot, {})[p] = {
                        'rc': c.returncode, 'violation_lines': len(viol), 'first': heads[:3],
                        'tier': a.tier, 'scale': a.scale, 'seed': a.seed,
                        'wall_s': round(time.time() - t0, 1),
                        'harness_error': [ln[:400] for ln in lines
                                          if ln.startswith('HARNESS-ERROR')][:1]}
                    print(sid, p, 'rc', c.returncode, (heads[:1] or lines[-1:]), flush=True)
        except RuntimeError as e:
            print(sid, 'ERROR', e)
            res.setdefault(sid, {})['error'] = str(e)
        finally:
            shutil.rmtree(scratch, ignore_errors=True)
        save_results(res)
    return 0


def report(ids, a):
    """Fold results.json into each meta.json ('confirmed', 'checked_with') and write README.md."""
    res = load_results()
    rows = []
    for sid in ids:
        d = os.path.join(SEEDED, sid)
        meta = json.load(open(os.path.join(d, 'meta.json')))
        r = res.get(sid, {})
        v = r.get('verify', {})
        meta['breaks'] = meta.get('property')
        meta['confirmed'] = {
            'patch_applies_to_HEAD': v.get('patch_applies'),
            'test_suite_passes_with_patch': (v.get('suite_with_patch') or {}).get('rc') == 0,
            'suite_tail': (v.get('suite_with_patch') or {}).get('tail'),
            'demo_fails_with_patch': (v.get('demo_with_patch') or {}).get('rc') not in (0, None),
            'demo_passes_without_patch': (v.get('demo_on_unchanged_tree') or {}).get('rc') == 0,
            'how': 'tools/seeded.py verify: scratch git worktree of /repo HEAD under /tmp, '
                   'git apply patch.diff, full test suite, demo.py <tree>; removed afterwards',
        }
        checks = r.get('checks', {})
        meta['checked_with'] = {p: {'exit': c['rc'], 'tier': c['tier'], 'scale': c.get('scale'),
                                    'first_report': (c.get('first') or [''])[0][:300],
                                    'harness_error': c.get('harness_error') or None}
                                for p, c in sorted(checks.items())}
        caught = sorted(p for p, c in checks.items() if c['rc'] == 1)
        meta['caught_by'] = caught
        # the property's own quick check under other VERIF_SEED values (robustness of detection)
        own_p = meta['property']
        by_seed = {'0': (checks.get(own_p) or {}).get('rc')}
        for k, v in sorted(r.items()):
            if k.startswith('checks_seed_') and own_p in v:
                by_seed[k[len('checks_seed_'):]] = v[own_p]['rc']
        meta['own_check_exit_by_seed'] = by_seed
        json.dump(meta, open(os.path.join(d, 'meta.json'), 'w'), indent=1, ensure_ascii=False)
        own = checks.get(meta['property'], {})
        rows.append((sid, meta['property'], meta.get('summary', '')[:110].replace('|', '/'),
                     meta.get('needs', '')[:110].replace('|', '/'),
                     'yes' if v.get('confirmed') else 'NO',
                     ', '.join(caught) or ('-' if checks else 'not run'),
                     (own.get('first') or [''])[0][4:90].replace('|', '/')))
    with open(os.path.join(SEEDED, 'README.md'), 'w') as f:
        f.write('# Seeded breaking changes\n\n'
                'Each directory holds `patch.diff` (applies to /repo HEAD), `demo.py` (fails with '
                'the patch, passes without), `meta.json` (property, what it needs to manifest, what '
                'was run).  Written by independent sub-agents that saw only the property text and '
                'a scratch worktree.  `tools/seeded.py verify|run|report` reproduces this table; '
                'notes on the misses are in DESIGN.md §13.\n\n'
                '| id | breaks | change | needs | confirmed | caught by (quick) | first report of own check |\n'
                '|---|---|---|---|---|---|---|\n')
        for row in rows:
            f.write('| ' + ' | '.join(row) + ' |\n')
    print(f'{len(rows)} seeded changes; README.md written')
    return 0


def main():
    ap = argparse.ArgumentParser()
    ap.add_argument('cmd', choices=('verify', 'run', 'report'))
    ap.add_argument('ids', nargs='*')
    ap.add_argument('--props', default=None)
    ap.add_argument('--all-props', action='store_true')
    ap.add_argument('--tier', default='quick')
    ap.add_argument('--scale', default='1.0')
    ap.add_argument('--seed', type=int, default=None)
    ap.add_argument('--no-selftest', action='store_true')
    ap.add_argument('--in-repo', action='store_true')
    a = ap.parse_args()
    ids = a.ids or sorted(d for d in os.listdir(SEEDED) if os.path.isdir(os.path.join(SEEDED, d)))
    if a.cmd == 'report':
        return report(ids, a)
    return verify(ids, a) if a.cmd == 'verify' else run(ids, a)


if __name__ == '__main__':
    sys.exit(main())
