#!/venv/bin/python
"""Run checks against the seeded breaking changes under /verif/seeded/<id>/ (patch.diff +
meta.json).  Each patch is applied to /repo, the quick check of its property (or the checks given
with --props) is run with evidence/replays redirected to a scratch directory, and the patch is
undone straight afterwards.  Results go to /verif/seeded/results.json."""
import argparse
import json
import os
import shutil
import subprocess
import sys
import tempfile
import time

ROOT = os.path.dirname(os.path.dirname(os.path.abspath(__file__)))
SEEDED = os.path.join(ROOT, 'seeded')


def sh(*a, **k):
    return subprocess.run(a, capture_output=True, text=True, **k)


def main():
    ap = argparse.ArgumentParser()
    ap.add_argument('ids', nargs='*')
    ap.add_argument('--props', default=None, help='comma list; default: the property in meta.json')
    ap.add_argument('--tier', default='quick')
    ap.add_argument('--scale', default='1.0')
    ap.add_argument('--all-props', action='store_true')
    a = ap.parse_args()
    if sh('git', '-C', '/repo', 'status', '--porcelain', '--untracked-files=no').stdout.strip():
        print('refusing: /repo has uncommitted changes')
        return 2
    ids = a.ids or sorted(d for d in os.listdir(SEEDED) if os.path.isdir(os.path.join(SEEDED, d)))
    res_path = os.path.join(SEEDED, 'results.json')
    try:
        results = json.load(open(res_path))
    except Exception:
        results = {}
    for sid in ids:
        d = os.path.join(SEEDED, sid)
        meta = json.load(open(os.path.join(d, 'meta.json')))
        props = a.props.split(',') if a.props else \
            (['C08', 'C09', 'C10', 'C11', 'C12', 'C13', 'C19', 'C20'] if a.all_props
             else [meta['property']])
        scratch = tempfile.mkdtemp(prefix='seeded-')
        env = dict(os.environ, VERIF_EVIDENCE_DIR=os.path.join(scratch, 'ev'),
                   VERIF_REPLAY_DIR=os.path.join(scratch, 'rp'))
        r = sh('git', '-C', '/repo', 'apply', os.path.join(d, 'patch.diff'))
        if r.returncode != 0:
            print(sid, 'patch does not apply:', r.stderr[:300])
            results.setdefault(sid, {})['apply'] = 'failed'
            continue
        try:
            for p in props:
                t0 = time.time()
                c = sh(os.path.join(ROOT, 'check'), p, '--tier', a.tier, '--no-selftest',
                       '--scale', a.scale, env=env, cwd=ROOT)
                viol = [ln for ln in c.stdout.splitlines() if ln.startswith('VIOLATION')]
                heads = [ln[:300] for ln in c.stdout.splitlines() if ln.startswith('--- ')]
                results.setdefault(sid, {})[p] = {
                    'rc': c.returncode, 'violations': len(viol), 'first': heads[:3],
                    'tier': a.tier, 'scale': a.scale, 'wall_s': round(time.time() - t0, 1),
                    'harness_error': [ln[:300] for ln in c.stdout.splitlines()
                                      if ln.startswith('HARNESS-ERROR')][:1]}
                print(sid, p, 'rc', c.returncode, heads[:1] or c.stdout.splitlines()[-1:], flush=True)
        finally:
            sh('git', '-C', '/repo', 'checkout', '--', '.')
            shutil.rmtree(scratch, ignore_errors=True)
        json.dump(results, open(res_path, 'w'), indent=1, sort_keys=True)
    return 0


if __name__ == '__main__':
    sys.exit(main())
