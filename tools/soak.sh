#!/bin/bash
# multi-seed soak of the quick checks on the unchanged tree (false-alarm hunt); usage: tools/soak.sh [seeds...]
export VERIF_EVIDENCE_DIR=$PWD/soak-ev VERIF_REPLAY_DIR=$PWD/soak-rp
for seed in ${@:-101 102 103 104 105 106}; do
  for id in C08 C09 C10 C11 C12 C13 C19 C20; do
    ./check $id --tier quick --seed $seed --no-selftest > soak_${id}_$seed.log 2>&1
    echo "seed=$seed $id exit=$? $(grep -m2 '^--- \|^HARNESS' soak_${id}_$seed.log | cut -c1-300)"
  done
done
