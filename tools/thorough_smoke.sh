#!/bin/bash
# scaled-down pass over thorough commands (harness smoke test after a change to the simulator)
# usage: tools/thorough_smoke.sh <scale> [ids...]
export VERIF_EVIDENCE_DIR=$PWD/ts-ev VERIF_REPLAY_DIR=$PWD/ts-rp
sc=${1:-0.15}; shift
for id in ${@:-C19 C20 C12 C08 C10 C11 C13 C09}; do
  s=$(date +%s)
  ./check $id --tier thorough --scale $sc > ts_$id.log 2>&1
  echo "$id exit=$? $(( $(date +%s)-s ))s $(grep -m2 '^--- \|^HARNESS' ts_$id.log | cut -c1-300) | $(tail -1 ts_$id.log | cut -c1-160)"
done
