#!/venv/bin/python
"""Conformance of the simulated primitives with CPython's: short scripted interleavings are run
against the real threading/queue objects (real threads sequenced by hand, 'blocked' observed by
a real-time timeout) and against the simulated ones; return values and the set of threads left
blocked must agree.

This is a harness self-test (exit 0 ok / exit 2 mismatch), not a property check.  It uses real
time for the real half, so a mismatch is re-tried before it is reported."""
from __future__ import annotations

import os
import queue
import sys
import threading
import time

ROOT = os.path.dirname(os.path.dirname(os.path.abspath(__file__)))
sys.path.insert(0, ROOT)

from sim import core, prims  # noqa

WAIT = 0.25


# ---------------------------------------------------------------------------------------------
# scenarios: (name, factory(lib) -> env, program {thread: [op(env) ...]}, schedule [thread...])
# lib is a namespace with Event, Queue, Barrier, Lock, RLock, Condition, Semaphore, Broken, Empty, Full
# ---------------------------------------------------------------------------------------------

def exc_name(fn):
    def w(env):
        try:
            return fn(env)
        except BaseException as e:  # noqa
            return 'raise:' + type(e).__name__
    return w


def SCENARIOS():
    S = []
    S.append(('event: waiter released by set survives a following clear',
              lambda L: {'e': L.Event()},
              {'A': [lambda v: v['e'].wait()],
               'B': [lambda v: v['e'].set(), lambda v: v['e'].clear(), lambda v: v['e'].is_set()]},
              ['A', 'B', 'B', 'B']))
    S.append(('event: set+clear before wait leaves the waiter blocked',
              lambda L: {'e': L.Event()},
              {'A': [lambda v: v['e'].wait()],
               'B': [lambda v: v['e'].set(), lambda v: v['e'].clear()]},
              ['B', 'B', 'A']))
    S.append(('event: wait with timeout returns False',
              lambda L: {'e': L.Event()},
              {'A': [lambda v: v['e'].wait(0.05)]},
              ['A']))
    S.append(('event: wait on a set flag returns at once, twice',
              lambda L: {'e': L.Event()},
              {'A': [lambda v: v['e'].wait(), lambda v: v['e'].wait()],
               'B': [lambda v: v['e'].set()]},
              ['B', 'A', 'A']))
    S.append(('queue: get blocks until put; fifo',
              lambda L: {'q': L.Queue()},
              {'A': [lambda v: v['q'].get(), lambda v: v['q'].get()],
               'B': [lambda v: v['q'].put(1), lambda v: v['q'].put(2)]},
              ['A', 'B', 'B', 'A']))
    S.append(('queue: bounded put blocks until get; nowait variants raise',
              lambda L: {'q': L.Queue(1), 'L': L},
              {'A': [lambda v: v['q'].put('x'), lambda v: v['q'].put('y'),
                     exc_name(lambda v: v['q'].put_nowait('z'))],
               'B': [lambda v: v['q'].get(), lambda v: v['q'].get(),
                     exc_name(lambda v: v['q'].get_nowait())]},
              ['A', 'A', 'B', 'A', 'B', 'B', 'B']))
    S.append(('queue: get with timeout raises Empty',
              lambda L: {'q': L.Queue()},
              {'A': [exc_name(lambda v: v['q'].get(timeout=0.05))]},
              ['A']))
    S.append(('barrier: third arrival releases, reusable next generation',
              lambda L: {'b': L.Barrier(3)},
              {'A': [lambda v: v['b'].wait() in (0, 1, 2), lambda v: v['b'].wait() in (0, 1, 2)],
               'B': [lambda v: v['b'].wait() in (0, 1, 2), lambda v: v['b'].wait() in (0, 1, 2)],
               'C': [lambda v: v['b'].wait() in (0, 1, 2), lambda v: v['b'].n_waiting]},
              ['A', 'B', 'C', 'A', 'C', 'B']))
    S.append(('barrier: abort breaks waiters and later arrivals',
              lambda L: {'b': L.Barrier(3)},
              {'A': [exc_name(lambda v: v['b'].wait())],
               'B': [lambda v: v['b'].abort(), exc_name(lambda v: v['b'].wait()),
                     lambda v: v['b'].broken]},
              ['A', 'B', 'B', 'B']))
    S.append(('barrier: timeout breaks it',
              lambda L: {'b': L.Barrier(2)},
              {'A': [exc_name(lambda v: v['b'].wait(0.05))],
               'B': [exc_name(lambda v: v['b'].wait())]},
              ['A', 'B']))
    S.append(('lock: second acquire blocks until release; try-acquire fails',
              lambda L: {'l': L.Lock()},
              {'A': [lambda v: v['l'].acquire(), lambda v: v['l'].release()],
               'B': [lambda v: v['l'].acquire(False), lambda v: v['l'].acquire(),
                     lambda v: v['l'].locked()]},
              ['A', 'B', 'B', 'A', 'B']))
    S.append(('rlock: reentrant for owner, blocks others',
              lambda L: {'l': L.RLock()},
              {'A': [lambda v: v['l'].acquire(), lambda v: v['l'].acquire(),
                     lambda v: v['l'].release(), lambda v: v['l'].release()],
               'B': [lambda v: v['l'].acquire(False), lambda v: v['l'].acquire()]},
              ['A', 'A', 'B', 'B', 'A', 'A']))

    def cv_wait(v):
        with v['c']:
            return v['c'].wait()

    def cv_notify(n):
        def f(v):
            with v['c']:
                v['c'].notify(n)
        return f

    S.append(('condition: notify(1) wakes exactly one of two waiters',
              lambda L: {'c': L.Condition()},
              {'A': [cv_wait], 'B': [cv_wait], 'C': [cv_notify(1)]},
              ['A', 'B', 'C']))
    S.append(('condition: notify before wait is lost; notify_all wakes all',
              lambda L: {'c': L.Condition()},
              {'A': [cv_wait], 'B': [cv_wait], 'C': [cv_notify(1), cv_notify(5)]},
              ['C', 'A', 'B', 'C']))
    S.append(('semaphore: counts, blocks at zero',
              lambda L: {'s': L.Semaphore(1)},
              {'A': [lambda v: v['s'].acquire(), lambda v: v['s'].acquire(),
                     lambda v: v['s'].acquire(False)],
               'B': [lambda v: v['s'].release()]},
              ['A', 'A', 'B', 'A']))
    S.append(('hand-rolled event barrier pattern: stale go flag lets a seat through',
              lambda L: {'go': L.Event(), 'a': L.Event()},
              {'seat': [lambda v: v['a'].set(), lambda v: v['go'].wait(), lambda v: v['a'].clear(),
                        lambda v: v['a'].set(), lambda v: v['go'].wait(), lambda v: v['a'].clear()],
               'main': [lambda v: v['a'].wait(), lambda v: v['go'].set(), lambda v: v['go'].clear(),
                        lambda v: v['a'].wait()]},
              ['seat', 'main', 'main', 'seat', 'seat', 'seat', 'seat', 'seat', 'main', 'main']))
    return S


class RealLib:
    Event = threading.Event
    Queue = queue.Queue
    Barrier = threading.Barrier
    Lock = threading.Lock
    RLock = threading.RLock
    Condition = threading.Condition
    Semaphore = threading.Semaphore


class SimLib:
    Event = prims.SimEvent
    Queue = prims.SimQueue
    Barrier = prims.SimBarrier
    Lock = prims.SimLock
    RLock = prims.SimRLock
    Condition = prims.SimCondition
    Semaphore = prims.SimSemaphore


def run_real(factory, program, schedule):
    env = factory(RealLib)
    results = {t: [] for t in program}
    cmds = {t: queue.Queue() for t in program}
    done = {t: threading.Event() for t in program}
    busy = {t: False for t in program}

    def body(t):
        for op in program[t]:
            cmds[t].get()
            busy[t] = True
            r = op(env)
            results[t].append(r)
            busy[t] = False
            done[t].set()

    ths = {t: threading.Thread(target=body, args=(t,), daemon=True) for t in program}
    for th in ths.values():
        th.start()
    pending = {t: 0 for t in program}
    for t in schedule:
        if busy[t]:
            pending[t] += 1       # its previous op is still blocked; queue the permit
            cmds[t].put('go')
            continue
        done[t].clear()
        cmds[t].put('go')
        done[t].wait(WAIT)
        time.sleep(0.02)
    time.sleep(WAIT)
    blocked = sorted(t for t in program if busy[t])
    return results, blocked


class Gated(core.Policy):
    """Runs everything that is enabled; program-level ops are gated by permits."""
    name = 'gated'

    def choose(self, sim, enabled, has_event):
        if enabled:
            return enabled[0]
        return core.EVENT


def run_sim(factory, program, schedule):
    sim = core.Sim(Gated(), max_decisions=10000)
    core.set_current(sim)
    results = {t: [] for t in program}
    permits = {t: 0 for t in program}
    try:
        env = factory(SimLib)

        def mk(t):
            def body():
                for op in program[t]:
                    sim.yield_('gate', t, lambda t=t: permits[t] > 0)
                    permits[t] -= 1
                    results[t].append(op(env))
            return body

        for t in program:
            sim.spawn(mk(t), t)

        sched = list(schedule)

        def director():
            for t in sched:
                permits[t] += 1
                # let everything settle: yield until nothing else can run
                sim.yield_('settle', t, lambda: not any(
                    x.parked and not x.finished and x.role != 'director' and x.is_enabled()
                    for x in sim.threads) and not _timers_soon(sim))
        sim.spawn(director, 'director')
        # the director must be tried last: Gated picks lowest tid first, director has highest
        sim.run()
    finally:
        core.set_current(None)
    blocked = sorted(role for role, op, obj in sim.blocked_final
                     if role != 'director' and op != 'gate')
    return results, blocked


def _timers_soon(sim):
    # pending timeouts belong to the operation in flight: let them fire before the next permit
    return bool(sim.events)


def main():
    bad = []
    for name, factory, program, schedule in SCENARIOS():
        ok = False
        for attempt in range(3):
            r_real = run_real(factory, program, schedule)
            r_sim = run_sim(factory, program, schedule)
            if _norm(r_real) == _norm(r_sim):
                ok = True
                break
        print(('ok   ' if ok else 'DIFF ') + name)
        if not ok:
            print('   real:', r_real)
            print('   sim :', r_sim)
            bad.append(name)
    if bad:
        print(f'HARNESS-ERROR: simulated primitives disagree with CPython on {len(bad)} scenario(s)')
        return 2
    print(f'conformance: {len(SCENARIOS())} scripted interleavings agree')
    return 0


def _norm(r):
    results, blocked = r
    # when several threads are released at once their identity is schedule-dependent in CPython
    # too (condition notify(1)): compare multisets across threads for such scenarios
    return ({t: list(v) for t, v in results.items()}, blocked)


if __name__ == '__main__':
    sys.exit(main())
