"""Oracles over one simulated session: C08 (log), C09 (completion), C10 (per-seat streams),
C11 (replicas), C12 (JSON schema + read-back), C19A (parser meaning), C20 (admission; see
admission_oracle).  Each finding carries the property it belongs to; a check reports only its
own property's findings."""
from __future__ import annotations

import io
import json

from model import refbridge as rb
from model import protocol as proto
from model import schema as mschema
from oracles import wire
from players import bundled as pb
from sim import parserec


class Finding:
    __slots__ = ('prop', 'oracle', 'msg', 'key')

    def __init__(self, prop, oracle, msg, key=None):
        self.prop = prop
        self.oracle = oracle
        self.msg = msg
        self.key = key or oracle

    def to_json(self):
        return {'prop': self.prop, 'oracle': self.oracle, 'msg': self.msg[:1500], 'key': self.key}


class Analysis:
    def __init__(self, run):
        self.run = run
        self.findings = []
        self.views = wire.extract(run.netw, 'pre:' if run.scn.get('prelude') else None)
        self.seated = {}          # seat -> ConnView of the seated connection
        self.decisions = []       # per board: {'calls': [...], 'cards': [...], 'complete': bool}
        self.offending = None     # description of the first non-conforming client action
        self.stats = {}
        self.unknown_lines = 0
        self.expected_tokens = None
        self.records = None       # parsed JSON records (plain json) or None
        self.log_json_error = None
        self.model_records = []

    def add(self, prop, oracle, msg, key=None):
        self.findings.append(Finding(prop, oracle, msg, key))


# ---------------------------------------------------------------------------------------------
# step 1: who is seated, what did they decide
# ---------------------------------------------------------------------------------------------

def find_seated(an):
    for v in sorted(an.views.values(), key=lambda v: (v.accept_index is None, v.accept_index)):
        if v.first_reply is not None and v.first_reply[0] == 'SEATED' and v.seat is not None:
            if v.seat not in an.seated:
                an.seated[v.seat] = v


def derive_decisions(an):
    """Replay the client->server CALL/CARD lines (in global send order) through refbridge."""
    scn = an.run.scn
    boards = scn['boards']
    acts = []
    for seat, v in an.seated.items():
        for dec, line, tok in v.c2s:
            if tok[0] in ('CALL', 'CARD', 'BADCARD', 'UNKNOWN'):
                acts.append((dec, seat, line, tok))
    acts.sort(key=lambda a: a[0])
    b = 0
    cur = None
    phase = None
    auction = None
    play = None
    res = None

    def start_board(i):
        nonlocal cur, phase, auction, play, res
        cur = {'calls': [], 'cards': [], 'complete': False, 'call_decs': [], 'card_decs': [],
               'result': None}
        an.decisions.append(cur)
        auction = rb.Auction(boards[i]['dealer'])
        play = None
        res = None
        phase = 'auction'

    if boards:
        start_board(0)
    for dec, seat, line, tok in acts:
        if b >= len(boards):
            an.offending = an.offending or f'{seat} sent {line!r} after the last board'
            break
        if tok[0] in ('BADCARD', 'UNKNOWN'):
            an.offending = f'board {b}: {seat} sent unparseable {line!r}'
            break
        if phase == 'auction':
            if tok[0] != 'CALL' or auction.turn != seat or tok[1] != seat or \
                    not auction.legal(tok[2]):
                an.offending = f'board {b} call {len(cur["calls"])}: {seat} sent {line!r} ' \
                               f'(turn {auction.turn})'
                break
            auction.apply(tok[2])
            cur['calls'].append(tok[2])
            cur['call_decs'].append(dec)
            if auction.done:
                res = auction.result()
                cur['result'] = res
                if res['declarer'] is None:
                    cur['complete'] = True
                    b += 1
                    if b < len(boards):
                        start_board(b)
                else:
                    play = rb.Play(boards[b]['deal'], res['declarer'], res['denom'])
                    phase = 'play'
        else:
            if tok[0] != 'CARD' or play.actor() != seat or tok[1] != play.turn or \
                    not play.holds(tok[2]):
                an.offending = f'board {b} card {len(cur["cards"])}: {seat} sent {line!r} ' \
                               f'(turn {play.turn}, actor {play.actor()})'
                break
            play.apply(tok[2])
            cur['cards'].append(tok[2])
            cur['card_decs'].append(dec)
            if play.done:
                cur['complete'] = True
                b += 1
                if b < len(boards):
                    start_board(b)
    an.complete_boards = sum(1 for d in an.decisions if d['complete'])
    an.all_decided = an.complete_boards == len(boards) and an.offending is None


def build_expectations(an):
    scn = an.run.scn
    boards = scn['boards']
    teams = scn['teams']
    exp = {s: [] for s in rb.SEATS}
    for s in rb.SEATS:
        v = an.seated.get(s)
        team = v.team if v is not None else teams[rb.side(s)]
        exp[s].append(('SEATED', s, team))
        exp[s].append(('TEAMS', teams['NS'], teams['EW']))
    an.model_info = []
    for i, d in enumerate(an.decisions):
        toks, info = proto.expected_board_tokens(i + 1, boards[i], d['calls'], d['cards'])
        an.model_info.append(info)
        for s in rb.SEATS:
            exp[s].extend(toks[s])
        if d['complete']:
            an.model_records.append(rb.board_record(boards[i], d['calls'], d['cards'], teams))
    if an.all_decided:
        for s in rb.SEATS:
            exp[s].append(('END',))
    an.expected_tokens = exp


def parse_log(an):
    txt = an.run.log_text
    if txt is None:
        an.log_json_error = 'no log file'
        return
    try:
        doc = json.loads(txt)
    except ValueError as e:
        an.log_json_error = f'not JSON: {e}'
        return
    if not isinstance(doc, dict) or not isinstance(doc.get('logs'), list):
        an.log_json_error = 'no top-level "logs" array'
        return
    an.log_doc = doc
    an.records = doc['logs']


# ---------------------------------------------------------------------------------------------
# C08
# ---------------------------------------------------------------------------------------------

C08_KEYS = ('players', 'board_id', 'dealer', 'deal', 'vulnerability', 'bid_history', 'contract',
            'declarer', 'play_history', 'taken_trick', 'scores')


def check_c08(an):
    run = an.run
    if an.records is None:
        # an unreadable log is C09's / C13's business, unless the session completed
        if run.outcome == 'finished' and run.server_exc is None:
            an.add('C08', 'log-parse', f'session completed but the log is unusable: '
                                      f'{an.log_json_error}')
        elif not run.scn.get('abort') and an.offending is None:
            an.add('C08', 'log-incomplete', f'the session of four conforming players ended '
                                            f'{run.outcome} and left no usable log: '
                                            f'{an.log_json_error}',
                   key='log-incomplete:' + str(run.outcome))
        return
    exp = an.model_records
    recs = an.records
    finished = run.outcome == 'finished' and run.server_exc is None and an.all_decided
    if not finished and not run.scn.get('abort') and an.offending is None and \
            len(recs) < len(run.scn['boards']):
        # "for every session the log lists the configured boards": four conforming players, no
        # injected abort, and yet the session did not get through its boards.  (The same run is a
        # C09 finding; it is reported here too because the log of this session is incomplete.)
        why = run.outcome if run.server_exc is None else f'{run.server_exc[0]}: {run.server_exc[1][:120]}'
        an.add('C08', 'log-incomplete', f'the session of four conforming players ended "{why}" and '
                                        f'its log lists {len(recs)} of the '
                                        f'{len(run.scn["boards"])} configured boards',
               key='log-incomplete:' + (run.outcome if run.server_exc is None
                                        else run.server_exc[0]))
    if finished and len(recs) != len(exp):
        an.add('C08', 'log-count', f'{len(recs)} records in the log, {len(exp)} boards played')
    if len(recs) > len(exp):
        an.add('C08', 'log-count', f'{len(recs)} records in the log but only {len(exp)} boards '
                                   f'were completed')
    for i, (r, e) in enumerate(zip(recs, exp)):
        if not isinstance(r, dict):
            an.add('C08', 'log-record', f'record {i} is not an object')
            continue
        for k in C08_KEYS:
            if r.get(k, '<missing>') != e[k]:
                an.add('C08', 'log-record',
                       f'board {i} field {k}: log has {json.dumps(r.get(k, "<missing>"))[:300]}, '
                       f'expected {json.dumps(e[k])[:300]} '
                       f'(contract {e["contract"]} by {e["declarer"]}, vul {e["vulnerability"]})',
                       key=f'log-record:{k}')
        sc = r.get('scores')
        if isinstance(sc, dict) and isinstance(sc.get('NS'), int) and isinstance(sc.get('EW'), int):
            if sc['NS'] != -sc['EW']:
                an.add('C08', 'log-scores', f'board {i}: scores are not negatives: {sc}')


# ---------------------------------------------------------------------------------------------
# C09
# ---------------------------------------------------------------------------------------------

def check_c09(an):
    run = an.run
    sim = run.sim
    if an.offending is not None and not run.scn.get('abort'):
        # a client of ours misbehaved in a conforming scenario: that is a harness problem or the
        # consequence of a wrong server message; either way C09's premise is gone
        an.stats['c09_skipped'] = an.offending
    out = run.outcome
    if out == 'deadlock':
        blocked = ', '.join(f'{r}@{op}({o})' for r, op, o in sim.blocked_final[:12])
        an.add('C09', 'deadlock', f'no thread can move and no event is pending; blocked: {blocked}',
               key='deadlock:' + probe_key(sim))
        return
    if out == 'step_budget':
        an.add('C09', 'step-budget', f'no completion within {sim.decisions} decisions '
                                     f'({sim.thread_steps - sim.thread_steps_at_last_fault} thread '
                                     f'steps after the last fault)')
        return
    if out == 'time_budget':
        an.add('C09', 'time-budget', f'no completion within {sim.now:.1f} simulated seconds')
        return
    if out == 'wall_hang':
        an.add('C09', 'wall-hang', str(sim.outcome_detail))
        return
    for role, tn, msg, tb in run.exceptions:
        if role == 'server' or role.startswith('pt:'):
            if tn == 'SimSpin':
                an.add('C09', 'spin', f'{role}: {msg}')
            else:
                an.add('C09', 'server-exception', f'{role} died: {tn}: {msg}\n{tb or ""}',
                       key=f'server-exception:{tn}')
    if run.server_exc is None:
        for role, op, obj in getattr(sim, 'killed_at_exit', ()):
            if role == 'server' or role.startswith('pt:') or role.startswith('aux:'):
                an.add('C09', 'thread-unfinished', f'Server.run() returned while its thread {role} '
                                                   f'was still running (at {op} on {obj}): a daemon '
                                                   f'thread, killed when the process exits',
                       key='thread-unfinished')
    for pl in run.players:
        if getattr(pl, 'verdict', None) == 'seated' and not pl.got_end:
            an.add('C09', 'no-end', f'{pl.name} was never sent "End of session" '
                                    f'(anomalies: {pl.anomalies[:2]})')
    if an.records is None:
        an.add('C09', 'log-incomplete', f'the log left behind is unusable: {an.log_json_error}')
    elif len(an.records) != len(run.scn['boards']):
        an.add('C09', 'log-incomplete', f'{len(an.records)} of {len(run.scn["boards"])} boards '
                                        f'in the log')


def probe_key(sim):
    ps = [k for k in ('early_pass', 'late_waiter', 'stale_arrival', 'rearrival_before_drain')
          if sim.probes.get(k)]
    return '+'.join(ps) if ps else 'none'


# ---------------------------------------------------------------------------------------------
# C10
# ---------------------------------------------------------------------------------------------

def observed_tokens(an, v):
    out = []
    for dec, line, tok in v.s2c:
        if tok[0] in ('UNKNOWN', 'ERROR'):
            if proto.card_bearing(line):
                out.append((dec, ('LEAK', line)))
            else:
                an.unknown_lines += 1
            continue
        if tok[0] == 'CALL':
            tok = tok[:3]
        if tok[0] in ('READY', 'CONNECT'):
            out.append((dec, ('LEAK', line)))
            continue
        out.append((dec, tok))
    return out


def check_c10(an):
    run = an.run
    finished = run.outcome == 'finished' and run.server_exc is None and an.all_decided
    # Everything has come to rest (no thread can move, nothing is in flight) in a session of
    # conforming players with no injected abort: whatever the calls and cards made so far entitle
    # a seat to -- relays, the lead prompt, dummy -- can no longer arrive, so it is owed.
    at_rest = not finished and run.outcome in ('deadlock', 'finished') and \
        not run.scn.get('abort') and an.offending is None
    lead_dec = {}
    for i, d in enumerate(an.decisions):
        if d['card_decs']:
            lead_dec[i] = d['card_decs'][0]
    for s in rb.SEATS:
        v = an.seated.get(s)
        if v is None:
            continue
        obs = observed_tokens(an, v)
        exp = an.expected_tokens[s]
        toks = [t for _, t in obs]
        n = min(len(toks), len(exp))
        for i in range(n):
            if toks[i] != exp[i]:
                an.add('C10', 'stream', f'{s}: message {i} is {fmt_tok(toks[i])}, expected '
                                        f'{fmt_tok(exp[i])} (after {fmt_tok(exp[i-1]) if i else "-"})',
                       key=f'stream:{toks[i][0]}/{exp[i][0]}')
                break
        else:
            if len(toks) > len(exp):
                an.add('C10', 'stream-extra', f'{s}: {len(toks) - len(exp)} message(s) beyond '
                                              f'what it is entitled to, first '
                                              f'{fmt_tok(toks[len(exp)])}',
                       key=f'stream-extra:{toks[len(exp)][0]}')
            elif (finished or at_rest) and len(toks) < len(exp) and not _seat_left(run, s):
                an.add('C10', 'stream-short',
                       f'{s}: {"session completed" if finished else "everything has come to rest"} but '
                       f'{len(exp) - len(toks)} message(s) it is entitled to were never sent, '
                       f'first missing {fmt_tok(exp[len(toks)])}',
                       key=f'stream-short:{exp[len(toks)][0]}')
        # causality: dummy is not disclosed on any connection before the opening lead was sent,
        # and before the second card
        b = -1
        for dec, t in obs:
            if t[0] == 'START':
                b += 1
            elif t[0] == 'DUMMY':
                ld = lead_dec.get(b)
                if ld is None or dec <= ld:
                    an.add('C10', 'dummy-early', f'{s}: dummy disclosed at decision {dec}, opening '
                                                 f'lead of board {b} sent at {ld}')
                d = an.decisions[b] if 0 <= b < len(an.decisions) else None
                if d and len(d['card_decs']) > 1 and dec >= d['card_decs'][1] and False:
                    pass
    # relays are sent after their original
    # (implied by stream equality + physical causality; nothing further to check)


def _seat_left(run, seat):
    """the scenario made this seat's client close its connection: nothing more can be sent to it"""
    ab = run.scn.get('abort') or {}
    return ab.get('kind') in ('leave', 'vanish') and ab.get('seat') == seat


def fmt_tok(t):
    if t[0] in ('CARDS', 'DUMMY'):
        return f'{t[0]}({",".join(str(x) for x in t[1:-1])}{"," if len(t) > 2 else ""}' \
               f'{len(t[-1])} cards {"".join(t[-1])[:16]}..)'
    return f'{t[0]}({",".join(str(x) for x in t[1:])})'


# ---------------------------------------------------------------------------------------------
# C11
# ---------------------------------------------------------------------------------------------

def _model_auction_at(an, b, n):
    a = rb.Auction(an.run.scn['boards'][b]['dealer'])
    for c in an.decisions[b]['calls'][:n]:
        a.apply(c)
    return a


def _model_play_at(an, b, n):
    d = an.decisions[b]
    res = d['result']
    p = rb.Play(an.run.scn['boards'][b]['deal'], res['declarer'], res['denom'])
    for c in d['cards'][:n]:
        p.apply(c)
    return p


def _cmp_play(an, who, b, snap, p, final=False):
    bad = []
    if snap['trick_no'] != p.trick_no:
        bad.append(f'trick number {snap["trick_no"]} vs {p.trick_no}')
    if not p.done:
        if snap['leader'] != p.leader:
            bad.append(f'leader {snap["leader"]} vs {p.leader}')
        if snap['active'] != p.turn:
            bad.append(f'turn {snap["active"]} vs {p.turn}')
    if snap['taken'] != p.won:
        bad.append(f'tricks {snap["taken"]} vs {p.won}')
    hist = [(ld, list(cs)) for ld, cs in p.tricks]
    if [(ld, list(cs)) for ld, cs in snap['history']] != hist:
        bad.append(f'trick history differs ({len(snap["history"])} vs {len(hist)} tricks)')
    if snap['declarer'] != p.declarer or snap['dummy'] != p.dummy:
        bad.append(f'declarer/dummy {snap["declarer"]}/{snap["dummy"]} vs {p.declarer}/{p.dummy}')
    if snap['trump'] != (p.trump or 'NT'):
        bad.append(f'trump {snap["trump"]} vs {p.trump or "NT"}')
    if final and not snap['done']:
        bad.append('replica not finished after 52 cards')
    if bad:
        an.add('C11', 'play-replica', f'{who} board {b} after {p.ncards} cards: ' + '; '.join(bad),
               key='play-replica:' + bad[0].split(' ')[0])


def check_c11(an):
    run = an.run
    server_done = run.outcome == 'finished' and run.server_exc is None
    nb = len(an.decisions)
    for pl in run.players:
        if pl.kind != 'bundled':
            continue
        if run.scn.get('family') == 'S2' and getattr(pl, 'verdict', None) != 'seated':
            # a requester that was turned away (or reset because it arrived after the table was
            # complete) is no replica of anything: C11 speaks about clients following a board
            continue
        obs = pl.obs
        who = pl.name
        if obs.exception is not None:
            tb = obs.exception_tb or ''
            replica_reject = 'play_card_by_player' in tb or 'take_bid' in tb or \
                             "raise Exception('')" in tb or 'Dummy hand is not set' in tb
            if server_done or replica_reject or not run.scn.get('abort'):
                an.add('C11', 'client-exception', f'{who} gave up: {obs.exception}\n{tb}',
                       key='client-exception:' + obs.exception.split(':')[0])
        elif server_done and pl.verdict == 'seated' and not pl.got_end:
            an.add('C11', 'client-incomplete', f'{who} did not complete the session the server '
                                               f'completed')
        for b, snap in obs.auction_points:
            if b >= nb or snap['n'] > len(an.decisions[b]['calls']):
                continue
            a = _model_auction_at(an, b, snap['n'])
            bad = []
            if snap['history'] != [c for _, c in a.calls]:
                bad.append(f'history {snap["history"]} vs {[c for _, c in a.calls]}')
            if snap['active'] != a.turn or snap['active'] != pl.seat:
                bad.append(f'turn {snap["active"]} vs {a.turn}')
            if snap['available'] != a.legal_calls():
                extra = sorted(set(snap['available']) - set(a.legal_calls()))
                miss = sorted(set(a.legal_calls()) - set(snap['available']))
                bad.append(f'offered calls differ: extra {extra[:6]} missing {miss[:6]}')
            per = {s: [c for st, c in a.calls if st == s] for s in rb.SEATS}
            if snap['per_seat'] != per:
                bad.append('per-seat call lists differ')
            if snap['hand52'] != 13:
                bad.append(f'hand vector has {snap["hand52"]} cards')
            if bad:
                an.add('C11', 'auction-replica', f'{who} board {b} at call {snap["n"]}: ' +
                       '; '.join(bad), key='auction-replica:' + bad[0].split(' ')[0])
        if getattr(obs, 'gaps', 0):
            an.stats['c11_observation_gaps'] = an.stats.get('c11_observation_gaps', 0) + obs.gaps
        for b, c in enumerate(obs.contracts):
            if b >= nb or an.decisions[b]['result'] is None or c == pb.GAP:
                continue
            res = an.decisions[b]['result']
            vul = rb.VULS.index(run.scn['boards'][b]['vul']) + 1
            if c is None or c['contract'] != res['contract'] or c['declarer'] != res['declarer'] \
                    or c['vul'] != vul:
                an.add('C11', 'contract-replica', f'{who} board {b}: client holds {c}, table '
                                                  f'manager {res["contract"]} by {res["declarer"]}')
        for b, snap in enumerate(obs.final_auctions):
            if b >= nb or snap is None or an.decisions[b]['result'] is None:
                continue
            if snap['history'] != an.decisions[b]['calls'] or not snap['done']:
                an.add('C11', 'auction-replica', f'{who} board {b}: final auction replica '
                                                 f'{snap["history"]} vs {an.decisions[b]["calls"]}')
        for b, snap, offered, pool, held in obs.play_points:
            if b >= nb or an.decisions[b]['result'] is None or \
                    snap['ncards'] > len(an.decisions[b]['cards']):
                continue
            p = _model_play_at(an, b, snap['ncards'])
            _cmp_play(an, who, b, snap, p)
            if p.done:
                continue
            seat = p.turn
            mh = sorted(p.hands[seat])
            if sorted(held) != mh:
                an.add('C11', 'hand-replica', f'{who} board {b} card {snap["ncards"]}: holds '
                                              f'{held} for {seat}, table manager {mh}')
            mf = sorted(p.follow_set(seat))
            if sorted(offered) != mf:
                an.add('C11', 'offered-cards', f'{who} board {b} card {snap["ncards"]}: offered '
                                               f'{offered}, follow-suit set {mf}')
            if (pool == 'dummy') != (seat == p.dummy):
                an.add('C11', 'pool', f'{who} board {b}: plays from {pool} but {seat} is on turn')
        for b, snap in enumerate(obs.final_plays):
            if b >= nb or snap is None or not an.decisions[b]['complete']:
                continue
            if not (pl.got_end or run.outcome == 'finished'):
                # the run was cut short (budget): the client may simply not have been handed the
                # last cards yet; an unfinished replica proves nothing then
                continue
            p = _model_play_at(an, b, 52)
            _cmp_play(an, who, b, snap, p, final=True)
        for b, di in enumerate(obs.deal_info):
            if b >= len(run.scn['boards']) or di == pb.GAP:
                continue
            num, dealer, vul, hand = di
            bd = run.scn['boards'][b]
            if num != b + 1 or dealer != bd['dealer'] or vul != rb.VULS.index(bd['vul']) + 1 or \
                    hand != sorted(bd['deal'][pl.seat]):
                an.add('C11', 'deal-replica', f'{who} board {b}: client understood board {num} '
                                              f'dealer {dealer} vul {vul} hand {hand}')
    check_c11_replica_lag(an)
    check_c11_observers(an)


def check_c11_replica_lag(an):
    """A client that has been HANDED a card message (its receive_message returned the line) but
    whose replica did not advance has ignored an action the table manager accepted -- it then sits
    one card behind and waits for ever, so no later decision point exposes it.  Judged when the run
    has come to rest (finished, or deadlocked with every thread blocked at a yield point)."""
    run = an.run
    if run.outcome not in ('finished', 'deadlock'):
        return
    handed = {}
    for cid, side, msg, exc in parserec.RECV_LOG:
        if side == 'client' and msg is not None and proto.tokenize(msg)[0] == 'CARD':
            handed[cid] = handed.get(cid, 0) + 1
    for pl in run.players:
        if pl.kind != 'bundled' or pl.obs.exception is not None:
            continue
        v = an.seated.get(pl.seat)
        if v is None or getattr(pl, 'verdict', 'seated') != 'seated':
            continue
        try:
            applied = sum(len(env.used_cards) for env in pl.obs.play_envs)
        except Exception:
            continue
        own = sum(1 for _, _, tok in v.c2s if tok[0] == 'CARD')
        got = handed.get(v.cid, 0)
        if applied < own + got:
            an.add('C11', 'replica-lag',
                   f'{pl.name}: was handed {got} card message(s) and played {own} itself, but its '
                   f'play replicas hold only {applied} card(s): a card the table manager accepted '
                   f'and relayed was ignored (run ended {run.outcome})', key='replica-lag')


def check_c11_observers(an):
    """Four harness-side single-seat observers (the real ObservedPlayingPhase), each fed only what
    its seat's connection carried, compared with the model after every card."""
    from sim import seams
    mods = seams.install()
    be = mods['bridge_env']
    Obs = be.ObservedPlayingPhase

    def card(c):
        return be.Card(rb.RANKS.index(c[1]) + 2, be.Suit(rb.SUITS.index(c[0]) + 1))

    def player(s):
        return be.Player(rb.SEATS.index(s) + 1)

    for s in rb.SEATS:
        v = an.seated.get(s)
        if v is None:
            continue
        # split this seat's received tokens per board
        per_board = []
        for dec, t in observed_tokens(an, v):
            if t[0] == 'START':
                per_board.append([])
            elif per_board:
                per_board[-1].append(t)
        for b, toks in enumerate(per_board):
            if b >= len(an.decisions):
                break
            d = an.decisions[b]
            res = d['result']
            if res is None or res['declarer'] is None or not d['cards']:
                continue
            own = [t for t in toks if t[0] == 'CARDS']
            dum = [t for t in toks if t[0] == 'DUMMY']
            if not own:
                continue
            bd = an.run.scn['boards'][b]
            st = res['doubling']
            contract = be.Contract(final_bid=be.Bid(rb.CALLS.index(res['contract'][:len(
                res['contract']) - len(st)]) + 1), x=st in ('X', 'XX'), xx=st == 'XX',
                vul=be.Vul(rb.VULS.index(bd['vul']) + 1), declarer=player(res['declarer']))
            try:
                o = Obs(contract=contract, player=player(s), hand={card(c) for c in own[0][2]})
                p = rb.Play(bd['deal'], res['declarer'], res['denom'])
                for i, c in enumerate(d['cards']):
                    if i == 1 and s != p.dummy:
                        if not dum:
                            break   # dummy not (yet) disclosed to this seat: stream ends here
                        o.set_dummy_hand({card(x) for x in dum[0][1]})
                    elif i == 1 and s == p.dummy:
                        pass
                    seat = p.turn
                    o.play_card_by_player(card(c), player(seat))
                    p.apply(c)
                    _cmp_play(an, f'observer:{s}', b, pb.snap_play(o), p, final=p.done)
                    if an.findings and an.findings[-1].prop == 'C11' and \
                            an.findings[-1].msg.startswith(f'observer:{s} board {b}'):
                        break
            except Exception as e:
                an.add('C11', 'observer-raises', f'observer:{s} board {b}: {type(e).__name__}: {e} '
                                                 f'on a play the table manager accepted',
                       key='observer-raises:' + type(e).__name__)


# ---------------------------------------------------------------------------------------------
# C12
# ---------------------------------------------------------------------------------------------

def check_c12(an):
    run = an.run
    txt = run.log_text
    if txt is None:
        return
    server_left_normally = run.outcome == 'finished' and run.server_exc is None
    if run.server_exc is not None and not run.scn.get('abort') and an.offending is None and \
            'json_handler/writer.py' in (run.server_exc[2] or ''):
        # nobody misbehaved and nobody interrupted: the log writer itself raised on a board result
        # (whatever it had put on the stream by then, it could not turn this sequence of results
        # into a document)
        an.add('C12', 'writer-failed', f'the log writer raised {run.server_exc[0]}: '
                                       f'{run.server_exc[1][:200]} on a board result of a '
                                       f'conforming session; document so far: '
                                       f'{an.log_json_error or "parses"}',
               key='writer-failed:' + run.server_exc[0])
    if an.records is None:
        # whether an unterminated document is acceptable after an abort is C13's question; C12
        # speaks about documents the writer was allowed to finish
        if server_left_normally:
            an.add('C12', 'json', f'the writer produced a document that is unusable: '
                                  f'{an.log_json_error}')
        return
    from sim import seams
    mods = seams.install()
    be = mods['bridge_env']
    errs = mschema.validate_log(an.log_doc)
    for e in errs[:3]:
        an.add('C12', 'schema', f'log does not conform to log_format.schema.json: {e}',
               key='schema:' + e.split(':')[0])
    from bridge_env.data_handler.json_handler.parser import JsonParser
    from bridge_env.data_handler.abstract_classes import BoardLog, BoardSetting
    try:
        logs = JsonParser().parse_board_logs(io.StringIO(txt))
    except Exception as e:
        an.add('C12', 'parse-logs', f'parse_board_logs raised {type(e).__name__}: {e}')
        logs = None
    try:
        settings = JsonParser().parse_board_settings(io.StringIO(txt))
    except Exception as e:
        an.add('C12', 'parse-settings', f'parse_board_settings raised {type(e).__name__}: {e}')
        settings = None
    exp = an.model_records

    def P(s):
        return be.Player(rb.SEATS.index(s) + 1)

    def C(c):
        return be.Card(rb.RANKS.index(c[1]) + 2, be.Suit(rb.SUITS.index(c[0]) + 1))

    def B(c):
        return be.Bid(rb.CALLS.index(c) + 1)

    def H(deal):
        return be.Hands(north_hand={C(c) for c in deal['N']}, east_hand={C(c) for c in deal['E']},
                        south_hand={C(c) for c in deal['S']}, west_hand={C(c) for c in deal['W']})

    def DDA(d):
        if d is None:
            return None
        return {P(s): {be.Suit(rb.DENOMS.index(k) + 1): n for k, n in d[s].items()}
                for s in rb.SEATS}

    boards = run.scn['boards']
    if logs is not None:
        if len(logs) != len(an.records):
            an.add('C12', 'readback-count', f'{len(logs)} records read back, {len(an.records)} '
                                            f'written')
        for i, (lg, e) in enumerate(zip(logs, exp)):
            bd = boards[i]
            res = an.decisions[i]['result']
            st = res['doubling']
            vul = be.Vul(rb.VULS.index(bd['vul']) + 1)
            if res['declarer'] is None:
                contract = be.Contract(None, vul=vul)
            else:
                bid = res['contract'][:len(res['contract']) - len(st)]
                contract = be.Contract(final_bid=B(bid), x=st in ('X', 'XX'), xx=st == 'XX',
                                       vul=vul, declarer=P(res['declarer']))
            want = {
                'players': {P(s): e['players'][s] for s in rb.SEATS},
                'board_id': bd['board_id'],
                'hands': H(bd['deal']),
                'dealer': P(bd['dealer']),
                'vul': vul,
                'declarer': P(res['declarer']) if res['declarer'] else None,
                'contract': contract,
                'taken_trick': e['taken_trick'],
                'bid_history': [B(c) for c in e['bid_history']],
                'play_history': None if e['play_history'] is None else [
                    be.TrickHistory(leader=P(t['leader']), cards=tuple(C(c) for c in t['cards']))
                    for t in e['play_history']],
                'dda': DDA(bd.get('dda')),
                'score_type': 'IMP',
                'scores': {be.Pair.NS: e['scores']['NS'], be.Pair.EW: e['scores']['EW']},
            }
            for k, w in want.items():
                try:
                    got = getattr(lg, k)
                    same = _typed_equal(got, w)
                except Exception as ex:
                    same = False
                    got = f'<{type(ex).__name__}: {ex}>'
                if not same:
                    an.add('C12', 'readback', f'board {i} field {k}: read back {got!r:.300}, '
                                              f'written {w!r:.300}', key=f'readback:{k}')
    if settings is not None:
        if len(settings) != len(an.records):
            an.add('C12', 'settings-count', f'{len(settings)} settings read back, '
                                            f'{len(an.records)} boards written')
        for i, (st, e) in enumerate(zip(settings, exp)):
            bd = boards[i]
            want = BoardSetting(hands=H(bd['deal']), dealer=P(bd['dealer']),
                                vul=be.Vul(rb.VULS.index(bd['vul']) + 1), board_id=bd['board_id'],
                                dda=DDA(bd.get('dda')))
            for k in ('hands', 'dealer', 'vul', 'board_id', 'dda'):
                if not _typed_equal(getattr(st, k), getattr(want, k)):
                    an.add('C12', 'settings-readback', f'board {i} setting field {k}: read back '
                                                       f'{getattr(st, k)!r:.200}, configured '
                                                       f'{getattr(want, k)!r:.200}',
                           key=f'settings-readback:{k}')


def _typed_equal(a, b):
    """equality that also insists on the same value classes (a str is not a Player)"""
    if type(a) is not type(b):
        # Hands defines __eq__ raising TypeError for foreign types
        return False
    if isinstance(a, dict):
        if len(a) != len(b):
            return False
        for k, v in a.items():
            found = False
            for k2, v2 in b.items():
                if type(k) is type(k2) and k == k2:
                    found = True
                    if not _typed_equal(v, v2):
                        return False
                    break
            if not found:
                return False
        return True
    if isinstance(a, (list, tuple)) and not hasattr(a, '_fields'):
        return len(a) == len(b) and all(_typed_equal(x, y) for x, y in zip(a, b))
    if hasattr(a, '__dataclass_fields__'):
        return all(_typed_equal(getattr(a, f), getattr(b, f)) for f in a.__dataclass_fields__)
    return a == b


# ---------------------------------------------------------------------------------------------
# C19 (A): parser meaning
# ---------------------------------------------------------------------------------------------

def check_c19_session_framing(an):
    """What each real receiver (PlayerThread, bundled Client) was handed by receive_message must
    be, per connection and direction, a prefix of the lines its peer put on the wire: nothing
    truncated, merged, duplicated, reordered or made up, whatever the chunking and the silences
    in between."""
    sent = {}
    for cid, v in an.views.items():
        sent[(cid, 'server')] = [ln for _, ln, _ in v.c2s]      # the server side receives c2s
        sent[(cid, 'client')] = [ln for _, ln, _ in v.s2c]
    got = {}
    for cid, side, msg, exc in parserec.RECV_LOG:
        if cid is None or msg is None or cid not in an.views:
            continue
        got.setdefault((cid, side), []).append(msg)
    for key in sorted(got, key=lambda k: (k[0], str(k[1]))):
        g = got[key]
        w = sent.get(key, [])
        if g != w[:len(g)]:
            i = next((j for j in range(len(g)) if j >= len(w) or g[j] != w[j]), len(w))
            an.add('C19', 'session-framing',
                   f'connection {key[0]}, {key[1]} side: message {i} was received as '
                   f'{g[i]!r:.120} but the peer sent '
                   f'{(w[i] if i < len(w) else "<nothing more>")!r:.120}',
                   key='session-framing')
            break


_SERVER_BUILT = ('parse_board', 'parse_cards', 'parse_hand', 'parse_team_names',
                 'parse_leader_message')


def check_c19_understood(an):
    """In a session of conforming players with no injected abort, every line a bundled client
    feeds to one of these parsers was built by the real table manager, and the confirmation it
    checks in its handshake was built by the real PlayerThread: if the client's own code cannot
    make sense of it, builder and parser disagree -- whichever of the two is at fault, and whether
    or not the harness's tokenizer would have accepted the line."""
    run = an.run
    if run.scn.get('abort') or an.offending is not None:
        return
    roles = parserec.PARSE_ROLE
    for i, (name, args, result, exc) in enumerate(parserec.PARSE_LOG):
        if exc is None:
            continue
        role = roles[i] if i < len(roles) else '-'
        in_client = role.startswith(('client:', 'req:', 'fill:'))
        # whatever a client of a conforming session is handed came from the real table manager:
        # built by it, or relayed by it from another conforming player -- verbatim or rewritten,
        # that is its business; the receiving parser must make sense of it
        if name in _SERVER_BUILT or (in_client and name in ('parse_bid', 'parse_card')):
            an.add('C19', 'built-not-understood',
                   f'{role}: {name} raised {exc} on {args[0]!r:.160}, a line the table manager '
                   f'sent in a session of conforming players',
                   key=f'built-not-understood:{name}')
            return
    for pl in run.players:
        if pl.kind != 'bundled' or pl.obs.exception is None:
            continue
        if run.scn.get('family') == 'S2' and getattr(pl, 'verdict', None) != 'seated':
            continue
        tb = pl.obs.exception_tb or ''
        if '_connect' in tb and 'Unexpected message received' in pl.obs.exception:
            v = an.seated.get(pl.seat)
            if v is not None and v.first_reply is not None and v.first_reply[0] == 'SEATED' \
                    and v.first_reply[1] == pl.seat and v.first_reply[2] == pl.team:
                an.add('C19', 'built-not-understood',
                       f'{pl.name} ("{pl.team}") rejected the table manager\'s correct seating '
                       f'confirmation {v.s2c[0][1]!r}: {pl.obs.exception}',
                       key='built-not-understood:seated')
                return


def check_c19a(an, cov=None):
    """Every (line, value) pair the real parsers produced in this run is compared with the
    harness tokenizer's reading of the same line."""
    try:
        check_c19_session_framing(an)
    except Exception as e:
        an.add('C19', 'parser-compare', f'session framing comparison failed: '
                                       f'{type(e).__name__}: {e}')
    try:
        check_c19_understood(an)
    except Exception as e:
        an.add('C19', 'parser-compare', f'understood-by-peer comparison failed: '
                                       f'{type(e).__name__}: {e}')
    for name, args, result, exc in parserec.PARSE_LOG:
        try:
            _check_parse(an, name, args, result, exc, cov)
        except Exception as e:   # the comparison itself must never take the run down
            an.add('C19', 'parser-compare', f'{name}{args!r:.200}: comparison failed: '
                                           f'{type(e).__name__}: {e}')


def _check_parse(an, name, args, result, exc, cov):
    if name == 'parse_bid':
        content, pname = args[0], args[1]
        tok = proto.tokenize(content)
        if tok[0] != 'CALL':
            return     # not a call line by the harness's reading (offending input): no claim
        if rb.SEAT_NAMES[tok[1]].lower() != pname.lower():
            return
        if exc is not None:
            an.add('C19', 'call-meaning', f'parse_bid({content!r}) raised {exc}; the sender meant '
                                          f'{tok[2]}', key='call-meaning:raise')
            return
        got = pb.call_of(result)
        if cov is not None:
            cov['calls'].add((tok[1], tok[2]))
        if got != tok[2]:
            an.add('C19', 'call-meaning', f'parse_bid({content!r}) -> {got}; the sender meant '
                                          f'{tok[2]}')
    elif name == 'parse_card':
        content, player = args[0], args[1]
        tok = proto.tokenize(content)
        if tok[0] != 'CARD' or tok[1] != pb.seat_of(player):
            return
        if exc is not None:
            an.add('C19', 'card-meaning', f'parse_card({content!r}) raised {exc}; the sender meant '
                                          f'{tok[2]}', key='card-meaning:raise')
            return
        got = pb.card_of(result)
        if cov is not None:
            txt = content.split()[-1]
            cov['cards'].add((tok[1], tok[2], 'SR' if txt[0].upper() in rb.SUITS else 'RS'))
        if got != tok[2]:
            an.add('C19', 'card-meaning', f'parse_card({content!r}) -> {got}; the sender meant '
                                          f'{tok[2]}')
    elif name == 'parse_board':
        tok = proto.tokenize(args[0])
        if tok[0] != 'HEADER':
            return
        if exc is not None:
            an.add('C19', 'header-meaning', f'parse_board({args[0]!r}) raised {exc}')
            return
        got = (result[0], pb.seat_of(result[1]), rb.VULS[result[2].value - 1])
        if cov is not None:
            cov['headers'].add((got[1], got[2]))
        if got != tok[1:]:
            an.add('C19', 'header-meaning', f'parse_board({args[0]!r}) -> {got}; sent {tok[1:]}')
    elif name == 'parse_team_names':
        tok = proto.tokenize(args[0])
        if tok[0] != 'TEAMS':
            return
        if exc is not None:
            an.add('C19', 'teams-meaning', f'parse_team_names({args[0]!r}) raised {exc}')
            return
        if tuple(result) != tok[1:]:
            an.add('C19', 'teams-meaning', f'parse_team_names({args[0]!r}) -> {result}; sent '
                                           f'{tok[1:]}')
    elif name == 'parse_cards':
        tok = proto.tokenize(args[0])
        if tok[0] not in ('CARDS', 'DUMMY'):
            return
        if exc is not None:
            an.add('C19', 'hand-meaning', f'parse_cards({args[0]!r}, {args[1]!r}) raised {exc}')
            return
        h = proto.parse_hand_text(result)
        if h != tok[-1]:
            an.add('C19', 'hand-meaning', f'parse_cards({args[0]!r}) -> {result!r}')
    elif name == 'parse_hand':
        h = proto.parse_hand_text(args[0])
        if h is None:
            return
        if exc is not None:
            an.add('C19', 'hand-meaning', f'parse_hand({args[0]!r}) raised {exc}')
            return
        got = tuple(sorted((pb.card_of(c) for c in result[0]), key=rb.card_index))
        vec = tuple(1 if c in h else 0 for c in rb.CARDS)
        if cov is not None:
            for su in rb.SUITS:
                if not any(c[0] == su for c in h):
                    cov['voids'].add(su)
            cov['hand_sizes'].add(len(h))
        if got != h or tuple(result[1]) != vec:
            an.add('C19', 'hand-meaning', f'parse_hand({args[0]!r}) -> {got}; sent {h}')
    elif name == 'parse_connection_info':
        tok = proto.tokenize(args[0])
        if tok[0] != 'CONNECT':
            return
        if exc is not None:
            an.add('C19', 'connect-meaning', f'parse_connection_info({args[0]!r}) raised {exc}')
            return
        got = (result[0], pb.seat_of(result[1]), result[2])
        if got != tok[1:]:
            an.add('C19', 'connect-meaning', f'parse_connection_info({args[0]!r}) -> {got}; sent '
                                             f'{tok[1:]}')
    elif name == 'parse_leader_message':
        tok = proto.tokenize(args[0])
        if tok[0] != 'LEAD':
            return
        if exc is not None:
            an.add('C19', 'lead-meaning', f'parse_leader_message({args[0]!r}) raised {exc}')
            return
        want = pb.seat_of(args[1]) if tok[1] == 'Dummy' else tok[1]
        if pb.seat_of(result) != want:
            an.add('C19', 'lead-meaning', f'parse_leader_message({args[0]!r}) -> {result}')


# ---------------------------------------------------------------------------------------------

def analyse(run, cov=None):
    an = Analysis(run)
    find_seated(an)
    derive_decisions(an)
    build_expectations(an)
    parse_log(an)
    return an


def evaluate(run, props=('C08', 'C09', 'C10', 'C11', 'C12', 'C19'), cov=None):
    an = analyse(run)
    if 'C08' in props:
        check_c08(an)
    if 'C09' in props:
        check_c09(an)
    if 'C10' in props:
        check_c10(an)
    if 'C11' in props:
        check_c11(an)
    if 'C12' in props:
        check_c12(an)
    if 'C19' in props:
        check_c19a(an, cov)
    return an
