"""Wire extraction: from the network record of a run, per connection the lines each side sent
(with the decision number of the send that completed the line) and their tokens."""
from __future__ import annotations

from model.protocol import tokenize, split_lines


class ConnView:
    def __init__(self, cid):
        self.cid = cid
        self.c2s = []       # (decision, line, token)
        self.s2c = []
        self.c2s_rest = b''
        self.s2c_rest = b''
        self.seat = None
        self.team = None
        self.version = None
        self.client_role = None
        self.accept_index = None
        self.first_reply = None   # token of the first s2c line


def extract(netw, skip_role_prefix=None):
    """skip_role_prefix: connections opened by threads whose role starts with it are left out
    (the players of a prelude session that ran in the same process before the one under
    judgement)."""
    views = {}
    for conn in netw.conns:
        if skip_role_prefix and (conn.client_role or '').startswith(skip_role_prefix):
            continue
        v = ConnView(conn.cid)
        v.client_role = conn.client_role
        v.accept_index = conn.accept_index
        views[conn.cid] = v
    bufs = {}
    for dec, now, cid, direction, data in netw.sends:
        if cid not in views:
            continue
        key = (cid, direction)
        buf = bufs.get(key, b'') + data
        lines, rest = split_lines(buf)
        bufs[key] = rest
        v = views[cid]
        lst = v.c2s if direction == 'c2s' else v.s2c
        for ln in lines:
            lst.append((dec, ln, tokenize(ln)))
    for (cid, direction), rest in bufs.items():
        if direction == 'c2s':
            views[cid].c2s_rest = rest
        else:
            views[cid].s2c_rest = rest
    # accept order among the connections that are looked at
    order = sorted((v for v in views.values() if v.accept_index is not None),
                   key=lambda v: v.accept_index)
    for i, v in enumerate(order):
        v.accept_index = i
    for v in views.values():
        if v.c2s:
            t = v.c2s[0][2]
            if t[0] == 'CONNECT':
                v.team, v.seat, v.version = t[1], t[2], t[3]
        if v.s2c:
            v.first_reply = v.s2c[0][2]
    return views
