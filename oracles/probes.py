"""Reach probes and interleaving measures computed from the recorded history of a run."""
from __future__ import annotations

import hashlib

_SKIP = frozenset(('send', 'recv.wait', 'recv.eof', 'connect', 'connected', 'inject'))


def sync_trace(sim):
    """(role, kind, object) over server-side synchronisation operations."""
    out = []
    for dec, now, role, kind, obj, detail in sim.log:
        if (role == 'server' or role.startswith('pt:')) and kind not in _SKIP:
            # strip the creation-order suffix so that the digest reflects structure, not numbering
            out.append((role, kind, obj.split('#')[0] if isinstance(obj, str) else obj))
    return out


def sync_digest(sim):
    h = hashlib.sha1()
    for e in sync_trace(sim):
        h.update(repr(e).encode())
    return h.hexdigest()[:16]


def barrier_probes(sim):
    """Probes defined on the hand-rolled Event barrier (arrival flags + shared go flag), or on a
    threading.Barrier if the tree under test uses one.

    early_pass     a seat thread completed its k-th go-wait before the main thread's k-th release
    late_waiter    a seat thread entered a go-wait after the main thread had already cleared that
                   generation's flag
    stale_arrival  the main thread passed its k-th wait on a seat's arrival flag before that seat's
                   k-th arrival
    Returns (probes dict, window orderings set)."""
    probes = {}
    # identify the go event: set by the server, waited on by >= 2 pt threads
    waited = {}
    set_by_server = set()
    for dec, now, role, kind, obj, detail in sim.log:
        if kind == 'ev.wait' and role.startswith('pt:'):
            waited.setdefault(obj, set()).add(role)
        elif kind == 'ev.set' and role == 'server':
            set_by_server.add(obj)
    go = [o for o in set_by_server if len(waited.get(o, ())) >= 2]
    windows = set()
    if go:
        go = go[0]
        sets = 0
        clears = 0
        done = {}       # role -> completed go-waits
        pending = {}    # role -> entered, waiting
        arr_sets = {}   # arrival event -> count of sets by its seat
        srv_waits = {}  # arrival event -> completed waits by server
        flag = False
        window = []
        for dec, now, role, kind, obj, detail in sim.log:
            if obj == go:
                if role == 'server' and kind == 'ev.set':
                    sets += 1
                    flag = True
                    if window:
                        windows.add(tuple(window))
                    window = ['S']
                elif role == 'server' and kind == 'ev.clear':
                    clears += 1
                    flag = False
                    window.append('C')
                elif role.startswith('pt:') and kind == 'ev.wait':
                    k = done.get(role, 0) + 1
                    window.append('w' + role[3:] + ('=' if k == sets else ('+' if k > sets else '-')))
                    if flag:
                        done[role] = k
                        if k > sets:
                            probes['early_pass'] = probes.get('early_pass', 0) + 1
                    else:
                        pending[role] = k
                        if clears >= k and sets >= k:
                            probes['late_waiter'] = probes.get('late_waiter', 0) + 1
                elif role.startswith('pt:') and kind == 'ev.wake':
                    k = pending.pop(role, done.get(role, 0) + 1)
                    done[role] = k
                    if k > sets:
                        probes['early_pass'] = probes.get('early_pass', 0) + 1
            elif kind == 'ev.set' and role.startswith('pt:'):
                arr_sets[obj] = arr_sets.get(obj, 0) + 1
                arr_owner = role
            elif role == 'server' and kind in ('ev.wait', 'ev.wake') and obj in arr_sets:
                pass
        if window:
            windows.add(tuple(window))
        # stale arrival: replay server waits on arrival flags against the seat's set/clear history
        state = {}      # event -> (flag, nsets)
        srv_pending = None
        for dec, now, role, kind, obj, detail in sim.log:
            if role.startswith('pt:') and kind == 'ev.set' and obj != go:
                f, n = state.get(obj, (False, 0))
                state[obj] = (True, n + 1)
            elif role.startswith('pt:') and kind == 'ev.clear' and obj != go:
                f, n = state.get(obj, (False, 0))
                state[obj] = (False, n)
            elif role == 'server' and kind == 'ev.wait' and obj != go and obj in state:
                f, n = state[obj]
                k = srv_waits.get(obj, 0) + 1
                if f:
                    srv_waits[obj] = k
                    if n < k:
                        probes['stale_arrival'] = probes.get('stale_arrival', 0) + 1
                else:
                    srv_pending = obj
            elif role == 'server' and kind == 'ev.wake' and obj != go and obj in state:
                srv_waits[obj] = srv_waits.get(obj, 0) + 1
    trips = sum(1 for e in sim.log if e[3] == 'bar.trip')
    if trips:
        probes['barrier_trips'] = trips
        _barrier_object_probes(sim, probes, windows)
    return probes, windows


def _short(role):
    return 'M' if role == 'server' else role.replace('pt:', 'p').replace('client:', 'c')


def _barrier_object_probes(sim, probes, windows):
    """The same three questions asked of a threading.Barrier rendezvous (the tree after the C09
    repair, or any tree that uses one):

    rearrival_before_drain  a party arrived for generation g+1 while a party released from
                            generation g had not run yet (the window in which a flag-based barrier
                            breaks; the analogue of early_pass)
    main_trips_barrier      the main thread was the last to arrive (it releases the seats)
    main_arrives_first      the main thread arrived before every seat thread
    window orderings        per generation, the arrival order of the five parties"""
    per = {}         # barrier -> {'arrivals': [...], 'undrained': set(roles)}
    for dec, now, role, kind, obj, detail in sim.log:
        if kind == 'bar.wait':
            st = per.setdefault(obj, {'arrivals': [], 'undrained': set()})
            if st['undrained'] - {role}:
                probes['rearrival_before_drain'] = probes.get('rearrival_before_drain', 0) + 1
            st['arrivals'].append(role)
        elif kind == 'bar.wake':
            st = per.get(obj)
            if st is not None:
                st['undrained'].discard(role)
        elif kind == 'bar.trip':
            st = per.get(obj)
            if st is None:
                continue
            arr = st['arrivals']
            if arr:
                windows.add(tuple(_short(r) for r in arr))
                if arr[-1] == 'server':
                    probes['main_trips_barrier'] = probes.get('main_trips_barrier', 0) + 1
                if arr[0] == 'server':
                    probes['main_arrives_first'] = probes.get('main_arrives_first', 0) + 1
            # everybody but the last arrival (who never blocks) still has to run to leave
            st['undrained'] = set(arr[:-1])
            st['arrivals'] = []


def session_probes(run, an):
    """Workload probes: rare but legal situations that were actually reached."""
    p = {}
    for i, d in enumerate(an.decisions):
        res = d.get('result')
        if not res:
            continue
        if res['declarer'] is None:
            p['passed_out'] = p.get('passed_out', 0) + 1
            if i + 1 < len(an.decisions) and an.decisions[i + 1].get('result') and \
                    an.decisions[i + 1]['result']['declarer'] is not None:
                p['passed_out_then_played'] = p.get('passed_out_then_played', 0) + 1
        else:
            if i + 1 < len(an.decisions) and an.decisions[i + 1].get('result') and \
                    an.decisions[i + 1]['result']['declarer'] is None:
                p['played_then_passed_out'] = p.get('played_then_passed_out', 0) + 1
            if res['doubling'] == 'XX':
                p['redoubled'] = p.get('redoubled', 0) + 1
            elif res['doubling'] == 'X':
                p['doubled'] = p.get('doubled', 0) + 1
            info = an.model_info[i] if i < len(an.model_info) else None
            pl = info['play'] if info else None
            if pl is not None:
                dl = sum(1 for ld, _ in pl.tricks if ld == pl.dummy)
                if dl:
                    p['dummy_on_lead'] = p.get('dummy_on_lead', 0) + dl
                if pl.trump:
                    for ld, cs in pl.tricks:
                        if cs[0][0] == pl.trump:
                            continue
                        ruffs = [c for c in cs[1:] if c[0] == pl.trump]
                        if len(ruffs) >= 2:
                            p['tricks_with_2+_ruffs'] = p.get('tricks_with_2+_ruffs', 0) + 1
                        if len(ruffs) == 3:
                            p['tricks_with_3_ruffs'] = p.get('tricks_with_3_ruffs', 0) + 1
                            from model import refbridge as _rb
                            r = [_rb.RANKS.index(c[1]) for c in ruffs]
                            if r[1] > r[2] > r[0]:
                                p['overruff_then_lower_ruff_above_first'] = \
                                    p.get('overruff_then_lower_ruff_above_first', 0) + 1
    for dec, now, role, kind, obj, detail in run.sim.log:
        if kind == 'thread.alive' and detail is True:
            pass
    return p
