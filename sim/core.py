"""Deterministic simulator core: baton-passing real threads, discrete-event clock,
seeded scheduling policies, stall faults, exact deadlock detection.

Only one simulated thread ever runs.  A thread gives the baton back at *yield points*
(the entry of every operation on a simulated primitive), parking with a description of
the operation and an enabledness predicate.  The controller then makes one decision:
run one enabled thread, or fire the earliest pending discrete event.

Nothing in here imports bridge_env.
"""
from __future__ import annotations

import _thread
import hashlib
import heapq
import random
import sys
import traceback

EVENT = 'EVENT'  # pseudo participant: "fire the earliest pending event"

# op kinds whose occurrence depends on the schedule (they only appear when a thread had to
# block); they are excluded from the schedule-independent per-thread op index.
UNSTABLE_KINDS = frozenset(('recv.wait', 'ev.wake', 'cv.wake', 'stall', 'line'))


class SimKill(BaseException):
    """Raised inside simulated threads to unwind them when a run is torn down."""


class SimSpin(BaseException):
    """A thread read end-of-stream from the same connection too many times in a row."""


class HarnessError(Exception):
    """The simulator itself is in an impossible state (never a property violation)."""


def _true():
    return True


class SimThread:
    __slots__ = ('sim', 'tid', 'name', 'role', 'baton', 'fn', 'finished', 'exc',
                 'exc_tb', 'parked', 'op', 'obj', 'enabled_fn', 'nops', 'nstable',
                 'stall_until', 'idle_stall', 'inject', 'started', 'retval',
                 'kind_counts', 'pytarget', 'last_kind', 'last_obj', 'spin', 'baton_done',
                 'line_arm', 'proc', 'daemon', 'dead', 'enabled_at', 'idle_since')

    def __init__(self, sim, tid, name, role, fn):
        self.sim = sim
        self.tid = tid
        self.name = name
        self.role = role
        self.fn = fn
        self.baton = _thread.allocate_lock()
        self.baton.acquire()
        self.finished = False
        self.exc = None
        self.exc_tb = None
        self.parked = True
        self.op = 'start'
        self.obj = ''
        self.enabled_fn = _true
        self.nops = 0          # all yield points taken
        self.nstable = 0       # schedule-independent op index
        self.stall_until = None
        self.idle_stall = False
        self.inject = None
        self.started = False
        self.retval = None
        self.kind_counts = {}
        self.pytarget = None
        self.last_kind = None
        self.last_obj = None
        self.spin = False
        self.baton_done = None
        self.line_arm = None
        self.proc = None       # which simulated OS process the thread belongs to
        self.daemon = False
        self.dead = False      # killed by the exit of its process (a daemon thread)
        self.enabled_at = None     # simulated time since which it has been runnable but not run
        self.idle_since = None     # simulated time at which its 'until idle' stall began

    def is_enabled(self):
        if self.dead:
            return False
        if self.idle_stall:
            return False
        if self.stall_until is not None:
            if self.sim.now < self.stall_until:
                return False
        if self.inject is not None:
            return True     # an interrupt reaches a thread while it is blocked
        return self.enabled_fn()

    def __repr__(self):
        return f'<SimThread {self.tid}:{self.role}>'


class Stall:
    """Freeze thread `role` when it is about to perform its `index`-th stable operation
    (or, if `after_kind` is given, the operation following its n-th operation of that
    kind).  duration: simulated seconds, or None = until everything else has quiesced.

    lines=k moves the freeze off the synchronisation operation: the thread performs that
    operation, goes on for k more source lines of the code under test (files below
    Sim.trace_root, counted with sys.settrace in that thread only, from that operation on) and is
    frozen there -- in the middle of a stretch of code that contains no synchronisation at all.
    If it reaches its next synchronisation operation first, the stall does not fire."""

    __slots__ = ('role', 'index', 'duration', 'fired', 'after_kind', 'after_n', 'after_obj',
                 'lines', 'origin')

    def __init__(self, role, index=None, duration=None, after_kind=None, after_n=None,
                 after_obj=None, lines=None, origin=None):
        self.role = role
        self.index = index
        self.duration = duration
        self.after_kind = after_kind
        self.after_n = after_n
        self.after_obj = after_obj
        self.lines = lines
        # origin = 'start:<file suffix>': `lines` is counted from the START of the thread, over
        # the lines it executes in that source file of the tree under test only (whatever
        # synchronisation operations lie in between) -- for a connection thread and
        # 'network_bridge/server.py' that is its admission code, where the checks against the
        # shared seat table and the write into it are plain statements with nothing between them
        self.origin = origin
        self.fired = False

    def to_json(self):
        return {'role': self.role, 'index': self.index, 'duration': self.duration,
                'after_kind': self.after_kind, 'after_n': self.after_n,
                'after_obj': self.after_obj, 'lines': self.lines, 'origin': self.origin}

    @classmethod
    def from_json(cls, d):
        return cls(d['role'], d.get('index'), d.get('duration'), d.get('after_kind'),
                   d.get('after_n'), d.get('after_obj'), d.get('lines'), d.get('origin'))


class Interrupt:
    """Raise `exc_type` in thread `role` at its `index`-th stable operation -- or, if `kind` is
    given, at its (n+1)-th operation of that kind (the primitive it is parked on raises instead
    of performing the operation)."""
    __slots__ = ('role', 'index', 'exc_type', 'fired', 'kind', 'n', 'anchor')

    def __init__(self, role, index=None, exc_type=KeyboardInterrupt, kind=None, n=None,
                 anchor=None):
        self.role = role
        self.index = index
        self.exc_type = exc_type
        self.fired = False
        self.kind = kind
        self.n = n
        # anchor='q.put': n counts the operations of `kind` the thread performs AFTER its first
        # operation of kind `anchor` (so that the count does not depend on how many operations --
        # e.g. iterations of a wait-with-timeout loop -- a schedule made it spend before that)
        self.anchor = anchor


# ---------------------------------------------------------------------------------------------
# scheduling policies
# ---------------------------------------------------------------------------------------------

class Policy:
    name = 'policy'

    def setup(self, sim):
        pass

    def on_spawn(self, sim, t):
        pass

    def choose(self, sim, enabled, has_event):
        raise NotImplementedError

    def describe(self):
        return {'strategy': self.name}


class Fifo(Policy):
    """Lowest-numbered enabled thread; time advances only when nothing is enabled."""
    name = 'fifo'

    def choose(self, sim, enabled, has_event):
        if enabled:
            return enabled[0]
        return EVENT


class Walk(Policy):
    """Uniform choice among enabled threads; with probability p a pending event fires
    instead although threads are runnable."""
    name = 'walk'

    def __init__(self, rng, p_event=0.05):
        self.rng = rng
        self.p = p_event

    def choose(self, sim, enabled, has_event):
        if not enabled:
            return EVENT
        if has_event and self.p and self.rng.random() < self.p:
            return EVENT
        if len(enabled) == 1:
            return enabled[0]
        return enabled[self.rng.randrange(len(enabled))]

    def describe(self):
        return {'strategy': 'walk', 'p_event': self.p}


class Pct(Policy):
    """PCT: random fixed priorities (the event source is a participant too); the highest
    enabled participant runs; at d change points the running participant drops lowest."""
    name = 'pct'

    def __init__(self, rng, depth=2, horizon=2000):
        self.rng = rng
        self.depth = depth
        self.horizon = horizon
        self.prio = {}
        self.change = sorted(rng.randrange(1, horizon) for _ in range(depth))
        self.low = 0.0
        self.prio[EVENT] = rng.random() + 1.0

    def on_spawn(self, sim, t):
        self.prio[t.tid] = self.rng.random() + 1.0

    def choose(self, sim, enabled, has_event):
        best = None
        bp = -1e9
        for t in enabled:
            p = self.prio[t.tid]
            if p > bp:
                bp = p
                best = t
        if has_event and (best is None or self.prio[EVENT] > bp):
            best = EVENT
        if self.change and sim.decisions >= self.change[0]:
            self.change.pop(0)
            self.low -= 1.0
            key = EVENT if best is EVENT else best.tid
            self.prio[key] = self.low
        return best

    def describe(self):
        return {'strategy': 'pct', 'depth': self.depth, 'horizon': self.horizon}


class FixedOrder(Policy):
    """Fixed priority order over thread *roles* (first listed = highest); EVENT may be listed
    too, default: time advances only when nothing else is enabled.  Unlisted threads come
    after the listed ones in tid order."""
    name = 'order'

    def __init__(self, order):
        self.order = list(order)
        self.rank = {r: i for i, r in enumerate(self.order)}

    def choose(self, sim, enabled, has_event):
        best = None
        bk = None
        n = len(self.rank)
        for t in enabled:
            k = (self.rank.get(t.role, n), t.tid)
            if bk is None or k < bk:
                bk = k
                best = t
        if has_event and EVENT in self.rank:
            if best is None or (self.rank[EVENT], -1) < bk:
                return EVENT
        if best is None:
            return EVENT
        return best

    def describe(self):
        return {'strategy': 'order', 'order': self.order}


# ---------------------------------------------------------------------------------------------
# the simulator
# ---------------------------------------------------------------------------------------------

class Sim:
    WALL_TIMEOUT = 60.0   # seconds the controller waits for a running thread to yield

    def __init__(self, policy, stalls=(), interrupts=(), max_decisions=2_000_000,
                 max_time=1e9, record=True, spin_limit=1000, steps_after_fault=None,
                 interrupt_on_hang=None):
        self.policy = policy
        self.stalls = list(stalls)
        self.interrupts = list(interrupts)
        self.max_decisions = max_decisions
        self.max_time = max_time
        self.record_on = record
        self.spin_limit = spin_limit
        self.steps_after_fault = steps_after_fault
        # role of the thread that receives a KeyboardInterrupt (once) when the whole system has
        # come to a standstill: the operator who sees a hung table manager and presses Ctrl-C
        self.interrupt_on_hang = interrupt_on_hang
        self.hang_interrupt_fired = False
        # source files whose lines count for Stall(lines=k): the package under test
        self.trace_root = None
        # Fairness in simulated time.  A policy may prefer firing events to running a runnable
        # thread (that is how a thread is made slow relative to the network), but on a tree whose
        # waits carry timeouts the supply of timer events never ends, and 'events first' would
        # starve the thread for ever.  So at most MAX_DEFER simulated seconds may pass while a
        # thread stays runnable without being run (long delays are what explicit stalls are
        # for); an 'until everything else is idle' stall ends after IDLE_CAP simulated seconds at
        # the latest; and the operator of `interrupt_on_hang` loses patience at `hang_deadline`.
        self.max_defer = 2.0
        self.idle_cap = 3600.0
        self.hang_deadline = None
        self._anchor_snaps = {}
        # Process model: threads spawned with proc=P (and the threads they start) form one OS
        # process whose main thread is the first of them.  When that main thread has returned (or
        # died) and every non-daemon thread of the process has finished, the process exits: its
        # daemon threads are killed where they stand and `on_process_exit` callbacks run (the
        # network closes the process's sockets) -- what the interpreter and the OS do.
        self.proc_main = {}          # proc -> its main SimThread
        self.proc_exited = set()
        self.on_process_exit = []

        self.ctl = _thread.allocate_lock()
        self.ctl.acquire()
        self.threads = []
        self.by_ident = {}
        self.current = None
        self.now = 0.0
        self.events = []       # heap of (time, seq, fn, label)
        self.eseq = 0
        self.decisions = 0
        self.log = []          # (decision, time, role, kind, obj, detail)
        self.aborting = False
        self.active = False
        self.outcome = None
        self.outcome_detail = None
        self.blocked = []
        self.obj_seq = 0
        self.fault_counts = {}
        self.probes = {}
        self.fault_time = 0.0      # simulated seconds of injected network silence
        self.last_fault_decision = 0
        self.last_fault_time = 0.0
        self.thread_steps = 0
        self.thread_steps_at_last_fault = 0
        self.events_fired = 0
        self.hooks_after_op = []
        self.idle_released = 0
        self.stalls_by_role = {}
        for s in self.stalls:
            self.stalls_by_role.setdefault(s.role, []).append(s)
        self.ints_by_role = {}
        for s in self.interrupts:
            self.ints_by_role.setdefault(s.role, []).append(s)
        policy.setup(self)

    # -- bookkeeping ---------------------------------------------------------------------

    def new_obj_name(self, cls, depth=2):
        """Name a primitive by class and creation site (function:line of the first frame
        outside /verif/sim), which is deterministic and survives refactoring better
        than creation order."""
        self.obj_seq += 1
        try:
            f = sys._getframe(depth)
            while f is not None and '/verif/sim/' in f.f_code.co_filename:
                f = f.f_back
            if f is not None:
                return f'{cls}@{f.f_code.co_name}:{f.f_lineno}#{self.obj_seq}'
        except Exception:
            pass
        return f'{cls}#{self.obj_seq}'

    def rec(self, kind, obj='', detail=None, t=None):
        if self.record_on:
            cur = t if t is not None else self.current
            self.log.append((self.decisions, self.now, cur.role if cur else '-', kind, obj,
                             detail))

    def count_fault(self, kind, n=1):
        self.fault_counts[kind] = self.fault_counts.get(kind, 0) + n

    def probe(self, name, n=1):
        self.probes[name] = self.probes.get(name, 0) + n

    def me(self):
        t = self.by_ident.get(_thread.get_ident())
        if t is None:
            raise HarnessError('simulated primitive used from a non-simulated thread')
        return t

    def in_sim_thread(self):
        return self.active and _thread.get_ident() in self.by_ident

    # -- events ------------------------------------------------------------------------------

    def schedule(self, delay, fn, label=''):
        self.eseq += 1
        heapq.heappush(self.events, (self.now + delay, self.eseq, fn, label))

    def schedule_at(self, when, fn, label=''):
        self.eseq += 1
        heapq.heappush(self.events, (max(when, self.now), self.eseq, fn, label))

    def _fire_next_event(self):
        when, _, fn, label = heapq.heappop(self.events)
        if when > self.now:
            self.now = when
        self.events_fired += 1
        fn()

    # -- threads -------------------------------------------------------------------------

    def spawn(self, fn, role, name=None, proc=None, daemon=False):
        tid = len(self.threads)
        t = SimThread(self, tid, name or role, role, fn)
        t.proc = proc
        t.daemon = daemon
        if proc is not None and proc not in self.proc_main:
            self.proc_main[proc] = t
        self.threads.append(t)
        self.policy.on_spawn(self, t)
        _thread.start_new_thread(self._thread_main, (t,))
        return t

    def _thread_main(self, t):
        self.by_ident[_thread.get_ident()] = t
        t.baton.acquire()
        t.started = True
        try:
            if self.aborting:
                raise SimKill()
            self._post_resume(t)
            for st in self.stalls_by_role.get(t.role, ()):
                if st.origin and st.lines and not st.fired:
                    self._arm_start_stall(t, st)
                    break
            t.retval = t.fn()
            # between run() returning and the thread no longer counting as alive there is
            # interpreter code (threading's bootstrap): a thread can be pre-empted -- or stalled
            # for long -- there, e.g. right after the last Event.set() of a connection thread
            # that has nothing more to do
            self.yield_('thread.end', t.role)
        except SimKill:
            pass
        except SimSpin as e:
            t.exc = e
            t.spin = True
        except BaseException as e:  # noqa
            t.exc = e
            t.exc_tb = traceback.format_exc(limit=12)
        finally:
            t.finished = True
            t.parked = False
            if not self.aborting:
                self.rec('thread.exit', t.role, type(t.exc).__name__ if t.exc else None, t=t)
            self.by_ident.pop(_thread.get_ident(), None)
            if not self.aborting:
                self.ctl.release()
            else:
                t.baton_done()

    # yield point ----------------------------------------------------------------------------

    def yield_(self, kind, obj='', enabled=_true, detail=None):
        """Park the calling thread before it performs operation `kind` on `obj`."""
        if self.aborting:
            raise SimKill()
        t = self.me()
        if t.line_arm is not None and kind != 'line':
            # reached the next synchronisation operation before the armed line count ran out
            sys.settrace(None)
            t.line_arm = None
        t.op = kind
        t.obj = obj
        t.enabled_fn = enabled
        t.nops += 1
        stable = kind not in UNSTABLE_KINDS
        if stable:
            self._check_faults(t, kind, obj)
            t.nstable += 1
        t.parked = True
        self.ctl.release()
        t.baton.acquire()
        if self.aborting:
            raise SimKill()
        self._post_resume(t)
        if stable:
            t.last_kind = kind
            t.last_obj = obj
            t.kind_counts[kind] = t.kind_counts.get(kind, 0) + 1
            if self.ints_by_role and (t.role == 'server' or t.role.startswith('aux:')):
                for il in self.ints_by_role.values():
                    for it in il:
                        if it.anchor == kind:
                            tgt = next((x for x in self.threads if x.role == it.role), None)
                            if tgt is not None and (tgt.tid, kind) not in self._anchor_snaps:
                                self._anchor_snaps[(tgt.tid, kind)] = dict(tgt.kind_counts)
        self.rec(kind, obj, detail, t=t)

    def _post_resume(self, t):
        inj = t.inject
        if inj is not None:
            t.inject = None
            self.rec('inject', t.role, inj.__name__, t=t)
            raise inj()

    def _check_faults(self, t, kind, obj):
        sl = self.stalls_by_role.get(t.role)
        if sl:
            for s in sl:
                if s.fired or s.origin:
                    continue
                hit = False
                if s.index is not None:
                    hit = (t.nstable == s.index)
                elif s.after_kind is not None:
                    hit = (t.last_kind == s.after_kind and
                           t.kind_counts.get(s.after_kind, 0) == s.after_n and
                           (s.after_obj is None or (t.last_obj or '').startswith(s.after_obj)))
                if hit and s.lines:
                    s.fired = True      # armed; counted as a fault only if it gets to freeze
                    self._arm_line_stall(t, s)
                    break
                if hit:
                    s.fired = True
                    self._apply_stall(t, s)
                    break
        il = self.ints_by_role.get(t.role)
        if il:
            for s in il:
                if s.fired:
                    continue
                if s.kind is not None and s.anchor is not None:
                    # counted from the moment the table manager's process (its main thread or a
                    # thread it started that is not a connection thread) performed its first
                    # operation of kind `anchor`
                    snap = self._anchor_snaps.get((t.tid, s.anchor))
                    hit = (snap is not None and kind == s.kind and
                           t.kind_counts.get(kind, 0) - snap.get(kind, 0) == s.n)
                elif s.kind is not None:
                    hit = (kind == s.kind and t.kind_counts.get(kind, 0) == s.n)
                else:
                    hit = (t.nstable == s.index)
                if hit:
                    s.fired = True
                    t.inject = s.exc_type
                    self.count_fault('interrupt')
                    self._mark_fault()

    def _arm_line_stall(self, t, s):
        """Called in thread t itself, on its way into a synchronisation operation."""
        root = self.trace_root
        if not root:
            return
        left = [int(s.lines)]
        sim = self

        def local(frame, event, arg):
            if event == 'line' and t.line_arm is s:
                left[0] -= 1
                if left[0] <= 0:
                    sys.settrace(None)
                    sim.count_fault('stall.midcode')
                    sim._apply_stall(t, s)
                    where = frame.f_code.co_filename[len(root):] + ':' + str(frame.f_lineno)
                    sim.yield_('line', where)
                    t.line_arm = None
                    return None
            return local

        def glob(frame, event, arg):
            if t.line_arm is s and frame.f_code.co_filename.startswith(root):
                return local
            return None

        f = sys._getframe(1)
        while f is not None:
            if f.f_code.co_filename.startswith(root):
                f.f_trace = local
            f = f.f_back
        t.line_arm = s
        sys.settrace(glob)

    def _arm_start_stall(self, t, s):
        """Called in thread t itself before its body runs: freeze it at the s.lines-th source line
        it executes in the file named by s.origin ('start:<suffix>')."""
        root = self.trace_root
        if not root:
            return
        suffix = s.origin.split(':', 1)[1] if ':' in s.origin else ''
        left = [int(s.lines)]
        sim = self
        s.fired = True      # armed; counted as a fault only if it gets to freeze

        def local(frame, event, arg):
            if left[0] <= 0:
                return None
            if event == 'line':
                left[0] -= 1
                if left[0] <= 0:
                    sys.settrace(None)
                    sim.count_fault('stall.midcode.from_start')
                    sim._apply_stall(t, s)
                    where = frame.f_code.co_filename[len(root):] + ':' + str(frame.f_lineno)
                    sim.yield_('line', where)
                    return None
            return local

        def glob(frame, event, arg):
            if left[0] > 0:
                fn = frame.f_code.co_filename
                if fn.startswith(root) and fn.endswith(suffix):
                    return local
            return None

        sys.settrace(glob)

    def _mark_fault(self):
        self.last_fault_decision = self.decisions
        self.last_fault_time = self.now
        self.thread_steps_at_last_fault = self.thread_steps

    def _apply_stall(self, t, s):
        self.count_fault('stall.' + t.role.split(':')[0])
        if self.record_on:
            self.log.append((self.decisions, self.now, t.role, 'stall',
                             'idle' if s.duration is None else repr(s.duration), t.nstable))
        if s.duration is None:
            t.idle_stall = True
            t.idle_since = self.now
        else:
            until = self.now + s.duration
            t.stall_until = until

            def end(t=t, until=until):
                if t.stall_until == until:
                    t.stall_until = None
                self._mark_fault()
            self.schedule_at(until, end, 'stall.end')
        self._mark_fault()

    # -- controller ------------------------------------------------------------------------

    def run(self):
        """Run until every thread finished, nothing can happen any more, or a budget is
        exceeded.  Returns the outcome string."""
        self.active = True
        try:
            self._loop()
        finally:
            self._teardown()
            self.active = False
        return self.outcome

    def _loop(self):
        threads = self.threads
        policy = self.policy
        while True:
            if self.proc_main:
                self._check_process_exit()
            enabled = []
            for t in threads:
                if t.parked and not t.finished and t.is_enabled():
                    enabled.append(t)
                    if t.enabled_at is None:
                        t.enabled_at = self.now
                else:
                    t.enabled_at = None
            has_event = bool(self.events)
            if has_event:
                nxt = self.events[0][0]
                capped = [t for t in threads if t.idle_stall and not t.finished and not t.dead
                          and nxt - t.idle_since > self.idle_cap]
                if capped:
                    t = capped[0]
                    t.idle_stall = False
                    self.idle_released += 1
                    self._mark_fault()
                    if self.record_on:
                        self.log.append((self.decisions, self.now, t.role, 'stall.end',
                                         'idle-cap', None))
                    continue
                if self.interrupt_on_hang and not self.hang_interrupt_fired and \
                        self.hang_deadline is not None and nxt > self.hang_deadline and \
                        self._fire_hang_interrupt():
                    continue
            if not enabled and not has_event:
                # release one idle-stalled thread, if any (limit case of "however long")
                idle = [t for t in threads if t.idle_stall and not t.finished and not t.dead]
                if idle:
                    t = idle[0]
                    t.idle_stall = False
                    self.idle_released += 1
                    self._mark_fault()
                    if self.record_on:
                        self.log.append((self.decisions, self.now, t.role, 'stall.end', 'idle',
                                         None))
                    continue
                if self.interrupt_on_hang and not self.hang_interrupt_fired and \
                        self._fire_hang_interrupt():
                    continue
                break
            choice = policy.choose(self, enabled, has_event)
            if choice is EVENT and enabled:
                oldest = min(enabled, key=lambda t: (t.enabled_at, t.tid))
                if self.events[0][0] - oldest.enabled_at > self.max_defer:
                    choice = oldest
            self.decisions += 1
            if choice is EVENT:
                if not has_event:
                    raise HarnessError('policy chose EVENT with none pending')
                self._fire_next_event()
            else:
                self.thread_steps += 1
                self._switch_to(choice)
                if self.outcome == 'wall_hang':
                    return
            if self.decisions >= self.max_decisions:
                self.outcome = 'step_budget'
                return
            if self.steps_after_fault is not None and \
                    self.thread_steps - self.thread_steps_at_last_fault > self.steps_after_fault:
                self.outcome = 'step_budget'
                return
            if self.now - self.fault_time > self.max_time:
                self.outcome = 'time_budget'
                return
        unfinished = [t for t in threads if not t.finished and not t.dead]
        if not unfinished:
            self.outcome = 'finished'
        else:
            self.outcome = 'deadlock'
            self.blocked = [(t.role, t.op, t.obj) for t in unfinished]

    def _fire_hang_interrupt(self):
        self.hang_interrupt_fired = True
        t = next((t for t in self.threads if t.role == self.interrupt_on_hang and
                  t.parked and not t.finished and not t.dead), None)
        if t is None:
            return False
        t.inject = KeyboardInterrupt
        self.count_fault('interrupt.on_hang')
        self._mark_fault()
        if self.record_on:
            self.log.append((self.decisions, self.now, t.role, 'hang.interrupt', t.op, None))
        return True

    def _check_process_exit(self):
        for proc, mt in self.proc_main.items():
            if proc in self.proc_exited or not mt.finished:
                continue
            mine = [t for t in self.threads if t.proc == proc and not t.finished]
            if any(not t.daemon for t in mine):
                continue        # the interpreter waits for non-daemon threads before it exits
            self.proc_exited.add(proc)
            for t in mine:
                t.dead = True
            if self.record_on:
                self.log.append((self.decisions, self.now, mt.role, 'proc.exit', proc,
                                 tuple(t.role for t in mine)))
            for cb in self.on_process_exit:
                cb(self, proc, mine)

    def _switch_to(self, t):
        t.parked = False
        t.enabled_at = None
        self.current = t
        t.baton.release()
        if not self.ctl.acquire(True, self.WALL_TIMEOUT):
            self.outcome = 'wall_hang'
            self.outcome_detail = f'thread {t.role} did not reach a yield point'
        self.current = None

    def _teardown(self):
        self.blocked_final = [(t.role, t.op, t.obj) for t in self.threads
                              if not t.finished and not t.dead]
        self.killed_at_exit = [(t.role, t.op, t.obj) for t in self.threads
                               if t.dead and not t.finished]
        self.aborting = True
        left = [t for t in self.threads if not t.finished]
        for t in left:
            t.baton_done = _DoneFlag()
        for t in left:
            try:
                t.baton.release()
            except RuntimeError:
                pass
        for t in left:
            t.baton_done.wait(5.0)

    # -- results ------------------------------------------------------------------------------

    def digest(self):
        h = hashlib.sha1()
        for e in self.log:
            h.update(repr(e).encode('utf-8', 'backslashreplace'))
        h.update(repr((self.outcome, self.decisions, round(self.now, 9))).encode())
        return h.hexdigest()

    def exceptions(self):
        return [(t.role, type(t.exc).__name__, str(t.exc), t.exc_tb) for t in self.threads
                if t.exc is not None]


class _DoneFlag:
    """One-shot flag built on a raw lock (not threading.*)."""

    def __init__(self):
        self.lock = _thread.allocate_lock()
        self.lock.acquire()

    def __call__(self):
        try:
            self.lock.release()
        except RuntimeError:
            pass

    def wait(self, timeout):
        if self.lock.acquire(True, timeout):
            self.lock.release()
            return True
        return False


# the single active simulator of this process (runs are sequential inside a worker)
_CURRENT = [None]


def current_sim():
    return _CURRENT[0]


def set_current(sim):
    _CURRENT[0] = sim
