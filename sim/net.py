"""Simulated TCP as the code sees it: reliable, ordered byte streams with half-close.

sendall() cuts the data at PRNG-chosen points and schedules one delivery event per piece;
close() schedules an EOF behind the bytes in flight.  No loss/duplication/reordering (the
system runs over TCP; no property speaks about a transport that breaks TCP's contract).
"""
from __future__ import annotations

import socket as _real_socket

from .core import current_sim, HarnessError, SimSpin


def _sim():
    s = current_sim()
    if s is None or not s.active:
        raise HarnessError('simulated socket used with no active simulator')
    return s


class NetConfig:
    """Per-run network behaviour, all driven by its own PRNG (part of the schedule stream)."""

    def __init__(self, rng, chunk='whole', latency='const', base_latency=0.001, short_send=0.0,
                 rst=False):
        self.rng = rng
        self.short_send = short_send    # probability that socket.send() accepts only a prefix
        # abortive close: a connection closed (by close() or by the OS at process exit) while
        # bytes it was sent are still unread is RESET, as TCP does: the peer's recv raises
        # ConnectionResetError (after the bytes it already has) instead of reading end-of-stream
        self.rst = rst
        self.chunk = chunk          # 'whole' | 'few' | 'bytes' | 'crlf'
        self.latency = latency      # 'const' | 'uniform' | 'heavy'
        self.base_latency = base_latency

    def describe(self):
        return {'chunk': self.chunk, 'latency': self.latency, 'base_latency': self.base_latency,
                'rst': self.rst}

    def cut(self, data):
        n = len(data)
        if n <= 1 or self.chunk == 'whole':
            return [data]
        if self.chunk == 'bytes':
            return [data[i:i + 1] for i in range(n)]
        if self.chunk == 'crlf':
            # split between CR and LF and once more somewhere
            i = data.find(b'\r\n')
            cuts = set()
            if i >= 0:
                cuts.add(i + 1)
            cuts.add(self.rng.randrange(1, n))
        else:  # few
            k = self.rng.choice((0, 1, 1, 2, 3))
            cuts = set(self.rng.randrange(1, n) for _ in range(k))
        cuts = sorted(cuts)
        out = []
        p = 0
        for c in cuts:
            out.append(data[p:c])
            p = c
        out.append(data[p:])
        return [c for c in out if c]

    def delay(self):
        if self.latency == 'const':
            return self.base_latency
        if self.latency == 'uniform':
            return self.rng.uniform(0.0, 0.010)
        if self.latency == 'outage':
            # mostly milliseconds; now and then the path goes silent for a long time (a
            # retransmission back-off, a congested or flapping link): tens of seconds to minutes
            # between two pieces, possibly of the same message
            r = self.rng.random()
            if r < 0.97:
                return self.rng.uniform(0.0, 0.005)
            d = self.rng.uniform(10.0, 300.0)
            s = current_sim()
            if s is not None:
                # an injected fault like a stall: liveness budgets run from the end of the last
                # fault, and the silence does not count against the simulated-time budget
                s.count_fault('net.outage')
                s.fault_time += d
                s.schedule(d, s._mark_fault, 'outage.end')
            return d
        # heavy tail: mostly ms, sometimes seconds
        r = self.rng.random()
        if r < 0.9:
            return self.rng.uniform(0.0, 0.005)
        if r < 0.99:
            return self.rng.uniform(0.05, 0.5)
        return self.rng.uniform(1.0, 5.0)


class Pipe:
    """One direction of a connection."""
    __slots__ = ('buf', 'eof', 'reset', 'last_t', 'reader_closed', 'writer_closed', 'eof_reads',
                 'label', 'discards', 'delivered', 'sent')

    def __init__(self, label):
        self.buf = bytearray()
        self.eof = False
        self.reset = False
        self.last_t = 0.0
        self.reader_closed = False
        self.writer_closed = False
        self.eof_reads = 0
        self.label = label
        self.discards = 0
        self.delivered = 0
        self.sent = 0


class Network:
    """All listeners and connections of one run + the wire record."""

    def __init__(self, cfg):
        self.cfg = cfg
        self.listeners = {}     # addr -> listening SimSocket
        self.closed_addrs = set()   # addresses whose listener has been closed
        self.conns = []         # Connection records
        self.sends = []         # (decision, time, conn_id, direction 'c2s'|'s2c', bytes)
        self.mid_message_blocks = 0
        self.sockets = []       # every socket created inside a simulated thread

    def process_exit(self, sim, proc, killed):
        """the OS closes every descriptor the exited process still held"""
        for sk in self.sockets:
            if sk._proc == proc and sk._state in ('connected', 'listening'):
                sk._os_close(sim)


class Connection:
    __slots__ = ('cid', 'c2s', 's2c', 'client_sock', 'server_sock', 'accepted', 'client_role',
                 'accept_index', 'connect_decision')

    def __init__(self, cid):
        self.cid = cid
        self.c2s = Pipe(f'c{cid}.c2s')
        self.s2c = Pipe(f'c{cid}.s2c')
        self.client_sock = None
        self.server_sock = None
        self.accepted = False
        self.client_role = None
        self.accept_index = None
        self.connect_decision = None


_NET = [None]


def set_network(net):
    _NET[0] = net


def network():
    return _NET[0]


class SimSocket:
    def __init__(self, family=None, type=None, proto=0, fileno=None):
        self._state = 'new'      # new | bound | listening | connected | closed
        self._addr = None
        self._queue = []         # listener: pending Connection objects
        self._conn = None
        self._side = None        # 'client' | 'server'
        self._timeout = None
        self._rx = None
        self._tx = None
        self._io_refs = 0        # file objects made by makefile() that are still open
        self._user_closed = False
        s = current_sim()
        self.name = s.new_obj_name('Socket') if s else 'Socket?'
        # the simulated OS process that owns this descriptor (closed by the OS when it exits)
        self._proc = None
        if s is not None and s.active and s.in_sim_thread():
            self._proc = s.me().proc
            nw = _NET[0]
            if nw is not None:
                nw.sockets.append(self)

    # -- options that the code may touch ------------------------------------------------------
    def setsockopt(self, *a):
        pass

    def getsockopt(self, *a):
        return 0

    def settimeout(self, t):
        self._timeout = t

    def gettimeout(self):
        return self._timeout

    def setblocking(self, flag):
        self._timeout = None if flag else 0.0

    def fileno(self):
        return -1 if self._state == 'closed' else 1000

    def getsockname(self):
        return self._addr or ('0.0.0.0', 0)

    def getpeername(self):
        if self._state == 'closed':
            raise OSError(9, 'Bad file descriptor')
        if self._state != 'connected':
            raise OSError(107, 'Transport endpoint is not connected')
        nw = network()
        if nw is not None and nw.cfg.rst and (self._rx.reset or self._tx.discards > 0):
            # the peer's RST (it closed with unread data, or it had closed and we wrote to it)
            # has torn the connection down: there is no peer any more
            raise OSError(107, 'Transport endpoint is not connected')
        return ('sim', 0)

    def __enter__(self):
        return self

    def __exit__(self, *a):
        self.close()

    # -- server side --------------------------------------------------------------------------
    def bind(self, addr):
        s = _sim()
        s.yield_('sock.bind', self.name)
        net = network()
        if addr in net.listeners:
            raise OSError(98, 'Address already in use')
        self._addr = addr
        self._state = 'bound'

    def listen(self, backlog=128):
        s = _sim()
        s.yield_('sock.listen', self.name)
        if self._state != 'bound':
            raise OSError(22, 'Invalid argument')
        self._state = 'listening'
        network().listeners[self._addr] = self

    def accept(self):
        s = _sim()
        if self._state != 'listening':
            raise OSError(22, 'Invalid argument')
        from .prims import _Timer
        tm = _Timer(s, self._timeout)
        s.yield_('accept', self.name, lambda: bool(self._queue) or tm.fired
                 or self._state == 'closed')
        if self._state == 'closed':
            raise OSError(9, 'Bad file descriptor')
        if not self._queue:
            raise _real_socket.timeout('timed out')
        conn = self._queue.pop(0)
        net = network()
        conn.accepted = True
        conn.accept_index = sum(1 for c in net.conns if c.accept_index is not None)
        srv = SimSocket()
        srv._state = 'connected'
        srv._conn = conn
        srv._side = 'server'
        srv._rx = conn.c2s
        srv._tx = conn.s2c
        conn.server_sock = srv
        s.rec('accepted', self.name, conn.cid)
        return srv, ('sim-client', conn.cid)

    # -- client side --------------------------------------------------------------------------
    def connect(self, addr):
        s = _sim()
        net = network()
        if self._state != 'new':
            raise OSError(106, 'Transport endpoint is already connected')
        # a conforming client is started after the server listens (or retries): wait for it
        s.yield_('connect', self.name,
                 lambda: addr in net.listeners or addr in net.closed_addrs)
        lst = net.listeners.get(addr)
        if lst is None or lst._state != 'listening':
            raise ConnectionRefusedError(111, 'Connection refused')
        conn = Connection(len(net.conns))
        net.conns.append(conn)
        conn.client_sock = self
        conn.client_role = s.me().role
        conn.connect_decision = s.decisions
        self._conn = conn
        self._side = 'client'
        self._rx = conn.s2c
        self._tx = conn.c2s
        self._state = 'connected'
        lst._queue.append(conn)
        s.rec('connected', self.name, conn.cid)

    def connect_ex(self, addr):
        try:
            self.connect(addr)
            return 0
        except OSError as e:
            return e.errno or 1

    # -- data ---------------------------------------------------------------------------------
    def sendall(self, data, flags=0):
        s = _sim()
        s.yield_('send', self.name)
        self._send(s, bytes(data))
        return None

    def send(self, data, flags=0):
        """socket.send may accept only part of the buffer (a short write: send buffer nearly
        full, a socket with a timeout, a signal); how often is a per-run network setting"""
        s = _sim()
        s.yield_('send', self.name)
        data = bytes(data)
        cfg = network().cfg
        if len(data) > 1 and cfg.short_send and cfg.rng.random() < cfg.short_send:
            k = cfg.rng.randint(1, len(data) - 1)
            s.count_fault('net.short_send')
            self._send(s, data[:k])
            return k
        self._send(s, data)
        return len(data)

    def _send(self, s, data):
        if self._state != 'connected':
            raise OSError(9, 'Bad file descriptor') if self._state == 'closed' else \
                OSError(107, 'Transport endpoint is not connected')
        pipe = self._tx
        if self._rx.reset:
            raise ConnectionResetError(104, 'Connection reset by peer')
        net = network()
        net.sends.append((s.decisions, s.now, self._conn.cid,
                          'c2s' if self._side == 'client' else 's2c', data))
        if pipe.reader_closed:
            # peer has closed: the first write is swallowed, later ones fail (EPIPE)
            pipe.discards += 1
            if pipe.discards > 1:
                raise BrokenPipeError(32, 'Broken pipe')
            return
        pipe.sent += len(data)
        cfg = net.cfg
        for piece in cfg.cut(data):
            when = max(pipe.last_t, s.now + cfg.delay())
            pipe.last_t = when
            s.schedule_at(when, _Deliver(pipe, piece), 'deliver')

    def recv(self, n, flags=0):
        if self._state != 'connected':
            if self._state == 'closed':
                raise OSError(9, 'Bad file descriptor')
            raise OSError(107, 'Transport endpoint is not connected')
        pipe = self._rx
        peek = bool(flags & _real_socket.MSG_PEEK)
        if not pipe.buf and not pipe.eof and not pipe.reset:
            if flags & getattr(_real_socket, 'MSG_DONTWAIT', 0) or self._timeout == 0.0:
                _sim().yield_('recv.poll', self.name)
                if not pipe.buf and not pipe.eof and not pipe.reset:
                    raise BlockingIOError(11, 'Resource temporarily unavailable')
            else:
                s = _sim()
                from .prims import _Timer
                tm = _Timer(s, self._timeout)
                s.yield_('recv.wait', self.name,
                         lambda: bool(pipe.buf) or pipe.eof or pipe.reset or tm.fired)
                if not pipe.buf and not pipe.eof and not pipe.reset:
                    raise _real_socket.timeout('timed out')
        if pipe.buf:
            if peek:
                return bytes(pipe.buf[:n])
            pipe.eof_reads = 0
            if n >= len(pipe.buf):
                out = bytes(pipe.buf)
                del pipe.buf[:]
            else:
                out = bytes(pipe.buf[:n])
                del pipe.buf[:n]
            return out
        if pipe.reset:
            raise ConnectionResetError(104, 'Connection reset by peer')
        # EOF
        if peek:
            return b''
        pipe.eof_reads += 1
        s = _sim()
        if pipe.eof_reads == 1:
            s.rec('recv.eof', self.name)
        if pipe.eof_reads > s.spin_limit:
            raise SimSpin(f'{pipe.eof_reads} consecutive end-of-stream reads on {pipe.label}')
        return b''

    def recv_into(self, buffer, nbytes=0, flags=0):
        data = self.recv(nbytes or len(buffer), flags)
        memoryview(buffer).cast('B')[:len(data)] = data
        return len(data)

    def makefile(self, mode='r', buffering=None, *, encoding=None, errors=None, newline=None):
        """socket.makefile as in CPython's Lib/socket.py: the real SocketIO / Buffered* /
        TextIOWrapper classes on top of this socket's recv_into() and send()"""
        import io
        if not set(mode) <= {'r', 'w', 'b'}:
            raise ValueError('invalid mode %r (only r, w, b allowed)' % (mode,))
        writing = 'w' in mode
        reading = 'r' in mode or not writing
        binary = 'b' in mode
        rawmode = ('r' if reading else '') + ('w' if writing else '')
        raw = _real_socket.SocketIO(self, rawmode)
        self._io_refs += 1
        if buffering is None:
            buffering = -1
        if buffering < 0:
            buffering = io.DEFAULT_BUFFER_SIZE
        if buffering == 0:
            if not binary:
                raise ValueError('unbuffered streams must be binary')
            return raw
        if reading and writing:
            buffer = io.BufferedRWPair(raw, raw, buffering)
        elif reading:
            buffer = io.BufferedReader(raw, buffering)
        else:
            buffer = io.BufferedWriter(raw, buffering)
        if binary:
            return buffer
        text = io.TextIOWrapper(buffer, encoding, errors, newline)
        text.mode = mode
        return text

    def _decref_socketios(self):
        if self._io_refs > 0:
            self._io_refs -= 1
        if self._user_closed:
            self.close()

    def shutdown(self, how):
        s = _sim()
        s.yield_('sock.shutdown', self.name)
        if self._state == 'connected' and how in (_real_socket.SHUT_WR, _real_socket.SHUT_RDWR):
            self._half_close(s)

    def _half_close(self, s, full=False):
        pipe = self._tx
        if not pipe.writer_closed:
            pipe.writer_closed = True
            when = max(pipe.last_t, s.now + network().cfg.delay())
            pipe.last_t = when
            if full and network().cfg.rst and self._rx.buf:
                # closed with unread data in the receive buffer: TCP answers with RST, not FIN
                s.count_fault('net.rst')
                s.schedule_at(when, _Reset(pipe), 'rst')
            else:
                s.schedule_at(when, _Eof(pipe), 'eof')

    def close(self):
        s = current_sim()
        if s is None or not s.active or s.aborting or not s.in_sim_thread():
            self._state = 'closed'
            return
        if self._state == 'closed':
            return
        self._user_closed = True
        if self._io_refs > 0:
            # as in CPython: the descriptor stays open until the last makefile() object is closed
            return
        s.yield_('sock.close', self.name)
        st = self._state
        self._state = 'closed'
        if st == 'listening':
            net = network()
            if net.listeners.get(self._addr) is self:
                del net.listeners[self._addr]
                net.closed_addrs.add(self._addr)
            # connections never accepted are reset, as TCP would
            for conn in self._queue:
                conn.s2c.reset = True
                conn.c2s.reader_closed = True
            self._queue = []
        elif st == 'connected':
            self._half_close(s, full=True)
            self._rx.reader_closed = True

    def _os_close(self, s):
        """closed by the operating system because the owning process has exited (no yield point:
        called by the controller)"""
        if self._state == 'connected':
            self._state = 'closed'
            self._half_close(s, full=True)
            self._rx.reader_closed = True
        elif self._state == 'listening':
            self._state = 'closed'
            net = network()
            if net.listeners.get(self._addr) is self:
                del net.listeners[self._addr]
                net.closed_addrs.add(self._addr)
            for conn in self._queue:
                conn.s2c.reset = True
                conn.c2s.reader_closed = True
            self._queue = []

    def detach(self):
        return -1


class _Deliver:
    __slots__ = ('pipe', 'data')

    def __init__(self, pipe, data):
        self.pipe = pipe
        self.data = data

    def __call__(self):
        if not self.pipe.reader_closed:
            self.pipe.buf += self.data
            self.pipe.delivered += len(self.data)


class _Eof:
    __slots__ = ('pipe',)

    def __init__(self, pipe):
        self.pipe = pipe

    def __call__(self):
        self.pipe.eof = True


class _Reset:
    __slots__ = ('pipe',)

    def __init__(self, pipe):
        self.pipe = pipe

    def __call__(self):
        self.pipe.reset = True


class SimSocketModule:
    """Stand-in for the `socket` module object inside bridge_env modules."""

    def __init__(self, real=_real_socket):
        self._real = real
        self.socket = SimSocket
        self.SocketType = SimSocket

    def create_connection(self, address, timeout=None, source_address=None, **kw):
        sk = SimSocket()
        sk.connect(tuple(address))
        return sk

    def create_server(self, address, **kw):
        sk = SimSocket()
        sk.bind(tuple(address))
        sk.listen()
        return sk

    def __getattr__(self, name):
        return getattr(self._real, name)
