"""Install the simulation seams into bridge_env's modules by assignment (no source hooks).

Every `bridge_env.*` module's globals are scanned and whatever threading/queue primitive class,
or `time` / `socket` / `random` / `threading` / `queue` module object, is found there is replaced
by identity with its simulated equivalent -- so a changed tree that starts using, say,
threading.Barrier or `import threading` is simulated too instead of silently running a real
primitive.
"""
from __future__ import annotations

import importlib
import logging
import pkgutil
import queue as _q
import random as _random
import socket as _socket
import sys
import threading as _th
import time as _time
import types

from . import net, prims

_installed = {}


class _SimThreadingModule:
    """Stand-in for `import threading` inside bridge_env modules."""

    def __init__(self):
        self.Event = prims.SimEvent
        self.Lock = prims.SimLock
        self.RLock = prims.SimRLock
        self.Condition = prims.SimCondition
        self.Semaphore = prims.SimSemaphore
        self.BoundedSemaphore = prims.SimBoundedSemaphore
        self.Barrier = prims.SimBarrier
        self.BrokenBarrierError = prims.BrokenBarrierError

    def __getattr__(self, name):
        return getattr(_th, name)


class _SimQueueModule:
    def __init__(self):
        self.Queue = prims.SimQueue
        self.LifoQueue = prims.SimLifoQueue
        self.PriorityQueue = prims.SimPriorityQueue
        self.SimpleQueue = prims.SimSimpleQueue
        self.Empty = prims.Empty
        self.Full = prims.Full

    def __getattr__(self, name):
        return getattr(_q, name)


def _replacements():
    tm = prims.SimTimeModule(_time)
    rnd = prims.SimRandom(_random)
    sk = net.SimSocketModule(_socket)
    thm = _SimThreadingModule()
    qm = _SimQueueModule()
    by_id = {
        id(_th.Event): prims.SimEvent,
        id(_th.Lock): prims.SimLock,
        id(_th.RLock): prims.SimRLock,
        id(_th.Condition): prims.SimCondition,
        id(_th.Semaphore): prims.SimSemaphore,
        id(_th.BoundedSemaphore): prims.SimBoundedSemaphore,
        id(_th.Barrier): prims.SimBarrier,
        id(_q.Queue): prims.SimQueue,
        id(_q.LifoQueue): prims.SimLifoQueue,
        id(_q.PriorityQueue): prims.SimPriorityQueue,
        id(_q.SimpleQueue): prims.SimSimpleQueue,
        id(_time): tm,
        id(_random): rnd,
        id(_socket): sk,
        id(_th): thm,
        id(_q): qm,
        id(_time.sleep): tm.sleep,
        id(_time.time): tm.time,
        id(_time.monotonic): tm.monotonic,
        id(_socket.socket): net.SimSocket,
        id(_random.choice): rnd.choice,
        id(_random.shuffle): rnd.shuffle,
        id(_random.random): rnd.random,
        id(_random.randint): rnd.randint,
        id(_random.sample): rnd.sample,
    }
    return by_id, rnd


def install(repo_path=None):
    """Import bridge_env from `repo_path` (forced first on sys.path) and install the seams.
    Returns a dict with the important module objects."""
    if _installed:
        return _installed
    import os
    repo_path = repo_path or os.environ.get('VERIF_REPO') or '/repo'
    if repo_path not in sys.path or sys.path[0] != repo_path:
        sys.path.insert(0, repo_path)
    import bridge_env  # noqa
    if not bridge_env.__file__.startswith(repo_path.rstrip('/') + '/'):
        raise RuntimeError(f'bridge_env imported from {bridge_env.__file__}, not {repo_path}')
    mods = []
    for m in pkgutil.walk_packages(bridge_env.__path__, 'bridge_env.'):
        try:
            mods.append(importlib.import_module(m.name))
        except Exception:
            # optional modules must not break the harness; the network modules are checked below
            pass
    mods.append(bridge_env)
    by_id, rnd = _replacements()
    replaced = []
    for mod in mods:
        g = vars(mod)
        for k in list(g):
            v = g[k]
            r = by_id.get(id(v))
            if r is not None:
                # make sure identity really matched one of ours (ids are only unique among
                # live objects, all of which we hold)
                g[k] = r
                replaced.append(f'{mod.__name__}.{k}')
        if mod.__name__.startswith('bridge_env.network_bridge'):
            g['print'] = _silent_print
    prims.patch_thread_class()
    logging.disable(logging.CRITICAL)
    from bridge_env.network_bridge import server, client, socket_interface
    _installed.update(server=server, client=client, socket_interface=socket_interface,
                      random=rnd, replaced=sorted(replaced), bridge_env=bridge_env)
    return _installed


def _silent_print(*a, **k):
    pass
