"""Install the simulation seams into bridge_env's modules by assignment (no source hooks).

Every `bridge_env.*` module's globals are scanned and whatever threading/queue primitive class,
or `time` / `socket` / `random` / `threading` / `queue` module object, is found there is replaced
by identity with its simulated equivalent -- so a changed tree that starts using, say,
threading.Barrier or `import threading` is simulated too instead of silently running a real
primitive.
"""
from __future__ import annotations

import importlib
import logging
import pkgutil
import queue as _q
import random as _random
import socket as _socket
import sys
import threading as _th
import time as _time
import types

from . import net, prims

_installed = {}

# the real classes, captured before the process-wide replacement below
_REAL_TH = {n: getattr(_th, n) for n in ('Event', 'Lock', 'RLock', 'Condition', 'Semaphore',
                                         'BoundedSemaphore', 'Barrier')}
_REAL_Q = {n: getattr(_q, n) for n in ('Queue', 'LifoQueue', 'PriorityQueue', 'SimpleQueue')}
_REAL_SLEEP = _time.sleep


class _SimThreadingModule:
    """Stand-in for `import threading` inside bridge_env modules."""

    def __init__(self):
        self.Event = prims.SimEvent
        self.Lock = prims.SimLock
        self.RLock = prims.SimRLock
        self.Condition = prims.SimCondition
        self.Semaphore = prims.SimSemaphore
        self.BoundedSemaphore = prims.SimBoundedSemaphore
        self.Barrier = prims.SimBarrier
        self.BrokenBarrierError = prims.BrokenBarrierError

    def __getattr__(self, name):
        return getattr(_th, name)


class _SimQueueModule:
    def __init__(self):
        self.Queue = prims.SimQueue
        self.LifoQueue = prims.SimLifoQueue
        self.PriorityQueue = prims.SimPriorityQueue
        self.SimpleQueue = prims.SimSimpleQueue
        self.Empty = prims.Empty
        self.Full = prims.Full

    def __getattr__(self, name):
        return getattr(_q, name)


def _replacements():
    tm = prims.SimTimeModule(_time)
    rnd = prims.SimRandom(_random)
    sk = net.SimSocketModule(_socket)
    thm = _SimThreadingModule()
    qm = _SimQueueModule()
    by_id = {
        id(_REAL_TH['Event']): prims.SimEvent,
        id(_REAL_TH['Lock']): prims.SimLock,
        id(_REAL_TH['RLock']): prims.SimRLock,
        id(_REAL_TH['Condition']): prims.SimCondition,
        id(_REAL_TH['Semaphore']): prims.SimSemaphore,
        id(_REAL_TH['BoundedSemaphore']): prims.SimBoundedSemaphore,
        id(_REAL_TH['Barrier']): prims.SimBarrier,
        id(_REAL_Q['Queue']): prims.SimQueue,
        id(_REAL_Q['LifoQueue']): prims.SimLifoQueue,
        id(_REAL_Q['PriorityQueue']): prims.SimPriorityQueue,
        id(_REAL_Q['SimpleQueue']): prims.SimSimpleQueue,
        id(_time): tm,
        id(_random): rnd,
        id(_socket): sk,
        id(_th): thm,
        id(_q): qm,
        id(_REAL_SLEEP): tm.sleep,
        id(_time.time): tm.time,
        id(_time.monotonic): tm.monotonic,
        id(_socket.socket): net.SimSocket,
        id(_random.choice): rnd.choice,
        id(_random.shuffle): rnd.shuffle,
        id(_random.random): rnd.random,
        id(_random.randint): rnd.randint,
        id(_random.sample): rnd.sample,
    }
    return by_id, rnd, tm


def install(repo_path=None):
    """Import bridge_env from `repo_path` (forced first on sys.path) and install the seams.
    Returns a dict with the important module objects."""
    if _installed:
        return _installed
    import os
    repo_path = repo_path or os.environ.get('VERIF_REPO') or '/repo'
    if repo_path not in sys.path or sys.path[0] != repo_path:
        sys.path.insert(0, repo_path)
    # Replace the primitives in `threading` / `queue` BEFORE the package is imported: whatever
    # the tree under test creates at import time -- a class-level `Queue()`, a module-level Lock,
    # a default argument -- is then a simulated object too (outside a run it behaves
    # single-threaded), instead of a real primitive on which a simulated thread would block for
    # good while holding the baton.
    by_id, rnd, tm = _replacements()
    prims.patch_thread_class()
    _patch_process_wide(tm)
    import bridge_env  # noqa
    if not bridge_env.__file__.startswith(repo_path.rstrip('/') + '/'):
        raise RuntimeError(f'bridge_env imported from {bridge_env.__file__}, not {repo_path}')
    mods = []
    for m in pkgutil.walk_packages(bridge_env.__path__, 'bridge_env.'):
        try:
            mods.append(importlib.import_module(m.name))
        except Exception:
            # optional modules must not break the harness; the network modules are checked below
            pass
    mods.append(bridge_env)
    replaced = []
    for mod in mods:
        g = vars(mod)
        for k in list(g):
            v = g[k]
            r = by_id.get(id(v))
            if r is not None:
                # make sure identity really matched one of ours (ids are only unique among
                # live objects, all of which we hold)
                g[k] = r
                replaced.append(f'{mod.__name__}.{k}')
        if mod.__name__.startswith('bridge_env.network_bridge'):
            g['print'] = _silent_print
    _patch_process_wide(tm)      # again: concurrent.futures may have been imported meanwhile
    logging.disable(logging.CRITICAL)
    from bridge_env.network_bridge import server, client, socket_interface
    _installed.update(server=server, client=client, socket_interface=socket_interface,
                      random=rnd, replaced=sorted(replaced), bridge_env=bridge_env)
    return _installed


def _silent_print(*a, **k):
    pass


def _patch_process_wide(tm):
    """Replace the primitive classes in the `threading` and `queue` modules themselves (and
    `time.sleep`), so that code which reaches them some other way than through a bridge_env module
    global -- a function-local `import threading`, or a standard-library component built on them
    such as concurrent.futures.ThreadPoolExecutor (pure Python on threading.Thread / Lock /
    Semaphore / Condition and queue.SimpleQueue) -- is simulated too instead of blocking a real
    thread that holds the baton.  Outside a simulated thread the replacements behave as
    single-threaded objects (prims._NullSim).  Only ever done in worker / replay processes, which
    run nothing but simulations."""
    _th.Event = prims.SimEvent
    _th.Lock = prims.SimLock
    _th.RLock = prims.SimRLock
    _th.Condition = prims.SimCondition
    _th.Semaphore = prims.SimSemaphore
    _th.BoundedSemaphore = prims.SimBoundedSemaphore
    _th.Barrier = prims.SimBarrier
    _q.Queue = prims.SimQueue
    _q.LifoQueue = prims.SimLifoQueue
    _q.PriorityQueue = prims.SimPriorityQueue
    _q.SimpleQueue = prims.SimSimpleQueue

    def sleep(d):
        from .core import current_sim
        s = current_sim()
        if s is not None and s.active and s.in_sim_thread():
            return tm.sleep(d)
        return _REAL_SLEEP(d)
    _time.sleep = sleep

    # A class of the tree under test that SUBCLASSES queue.Queue / threading.Condition etc. was
    # created at import time on the real base class; its inherited code then runs on simulated
    # locks and conditions (Queue.__init__ looks threading.Lock/Condition up when called) but
    # computes its timeouts with the clock the module bound at import (`from time import monotonic
    # as time`).  Give those modules the simulated clock too, or timeouts would depend on real
    # elapsed microseconds.
    real_mono = _time.monotonic

    def mono():
        from .core import current_sim
        s = current_sim()
        if s is not None and s.active and s.in_sim_thread():
            return tm.monotonic()
        return real_mono()
    if hasattr(_q, 'time'):
        _q.time = mono
    if hasattr(_th, '_time'):
        _th._time = mono
    cft = sys.modules.get('concurrent.futures.thread')
    if cft is not None and hasattr(cft, '_global_shutdown_lock'):
        # created at import time as a real lock; submit() performs queue operations (yield
        # points) while holding it
        cft._global_shutdown_lock = prims.SimLock()
