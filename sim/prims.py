"""Simulated synchronisation primitives with CPython's semantics.

Every operation is a yield point of the calling simulated thread (see core.Sim.yield_): the
thread parks *before* the operation, and performs it atomically when the controller picks it.
Blocking operations park with an enabledness predicate.

Semantics notes (they matter: a wrong model manufactures deadlocks):
* Event.wait is two operations: enter (returns at once if the flag is set, otherwise registers a
  waiter) and wake (enabled once a set() has released that registration, whatever the flag does
  afterwards) -- exactly what threading.Event does through Condition.notify_all.
* Condition keeps an explicit waiter list with notify(n) and re-acquires its lock on wake.
* Queue.get / Semaphore.acquire / Lock.acquire re-test their predicate in a loop in CPython, so
  predicate-enabledness is faithful.
* Barrier is generation based like threading.Barrier, incl. BrokenBarrierError on abort/reset.
* every blocking call honours timeout= through a timer event.
"""
from __future__ import annotations

import collections
import heapq
import queue as _real_queue
import threading as _real_threading

from .core import current_sim, HarnessError

Empty = _real_queue.Empty
Full = _real_queue.Full
BrokenBarrierError = _real_threading.BrokenBarrierError


class _NullThread:
    role = '-'
    tid = -1


class _NullSim:
    """What a simulated primitive sees when it is used outside a simulated thread (the controller
    thread, or a process with no run in progress): since the `threading` / `queue` module
    attributes are replaced process-wide (seams.install), library code may construct and use the
    simulated primitives there.  Single-threaded semantics: an operation that is enabled is
    performed at once; one that would block is a harness error."""
    now = 0.0
    active = False
    record_on = False
    log = ()
    _me = _NullThread()

    def yield_(self, kind, obj='', enabled=None, detail=None):
        if enabled is not None and not enabled():
            raise HarnessError(f'{kind} on {obj} would block outside the simulator')

    def rec(self, *a, **k):
        pass

    def schedule(self, *a, **k):
        pass

    def me(self):
        return self._me

    def in_sim_thread(self):
        return False

    def new_obj_name(self, cls, depth=2):
        return cls + '?'


_NULL = _NullSim()


def _sim():
    s = current_sim()
    if s is None or not s.active or not s.in_sim_thread():
        return _NULL
    return s


def _ctor_point(cls):
    """The constructors of Event, Condition, Semaphore, Barrier and Queue are Python code in
    CPython (several lines, further allocations inside): a thread can be pre-empted while it is
    building one, before the new object is stored anywhere -- which is what makes
    `defaultdict(Queue)[seat]` or a lazily created per-seat primitive a race.  So construction
    inside a simulated thread is a yield point (Lock/RLock/SimpleQueue are C objects: atomic)."""
    s = current_sim()
    if s is not None and s.active and s.in_sim_thread():
        s.yield_('new', cls)


class _Timer:
    """One-shot timeout flag fired by a discrete event."""
    __slots__ = ('fired',)

    def __init__(self, sim, timeout):
        self.fired = False
        if timeout is not None:
            if timeout <= 0:
                self.fired = True
            else:
                sim.schedule(timeout, self._fire, 'timeout')

    def _fire(self):
        self.fired = True


class SimEvent:
    def __init__(self):
        _ctor_point('Event')
        s = current_sim()
        self.name = s.new_obj_name('Event') if s else 'Event?'
        self._flag = False
        self._waiters = []

    def is_set(self):
        return self._flag

    isSet = is_set

    def set(self):
        s = _sim()
        s.yield_('ev.set', self.name)
        self._flag = True
        ws = self._waiters
        self._waiters = []
        for w in ws:
            w[0] = True

    def clear(self):
        s = _sim()
        s.yield_('ev.clear', self.name)
        self._flag = False

    def wait(self, timeout=None):
        s = _sim()
        s.yield_('ev.wait', self.name)
        if self._flag:
            return True
        w = [False]
        self._waiters.append(w)
        tm = _Timer(s, timeout)
        s.yield_('ev.wake', self.name, lambda: w[0] or tm.fired)
        if w[0]:
            return True
        try:
            self._waiters.remove(w)
        except ValueError:
            pass
        return self._flag


class SimLock:
    def __init__(self):
        s = current_sim()
        self.name = s.new_obj_name('Lock') if s else 'Lock?'
        self._owner = None

    def acquire(self, blocking=True, timeout=-1):
        s = _sim()
        me = s.me()
        if not blocking:
            s.yield_('lk.try', self.name)
            if self._owner is None:
                self._owner = me
                return True
            return False
        tm = _Timer(s, None if timeout is None or timeout < 0 else timeout)
        s.yield_('lk.acq', self.name, lambda: self._owner is None or tm.fired)
        if self._owner is None:
            self._owner = me
            return True
        return False

    def _at_fork_reinit(self):
        # what os.register_at_fork handlers of the standard library call in a forked child
        # (concurrent.futures.thread registers one for a module-level lock at import)
        self._owner = None

    def release(self):
        s = _sim()
        s.yield_('lk.rel', self.name)
        if self._owner is None:
            raise RuntimeError('release unlocked lock')
        self._owner = None

    def locked(self):
        return self._owner is not None

    def __enter__(self):
        self.acquire()
        return True

    def __exit__(self, *a):
        self.release()

    # used by SimCondition
    def _release_save(self):
        self._owner = None
        return None

    def _acquire_restore(self, x, me):
        self._owner = me

    def _is_owned_by(self, me):
        return self._owner is not None


class SimRLock:
    def __init__(self):
        s = current_sim()
        self.name = s.new_obj_name('RLock') if s else 'RLock?'
        self._owner = None
        self._count = 0

    def _at_fork_reinit(self):
        self._owner = None
        self._count = 0

    def acquire(self, blocking=True, timeout=-1):
        s = _sim()
        me = s.me()
        if self._owner is me:
            s.yield_('rl.reacq', self.name)
            self._count += 1
            return True
        if not blocking:
            s.yield_('rl.try', self.name)
            if self._owner is None:
                self._owner = me
                self._count = 1
                return True
            return False
        tm = _Timer(s, None if timeout is None or timeout < 0 else timeout)
        s.yield_('rl.acq', self.name, lambda: self._owner is None or tm.fired)
        if self._owner is None:
            self._owner = me
            self._count = 1
            return True
        return False

    def release(self):
        s = _sim()
        me = s.me()
        s.yield_('rl.rel', self.name)
        if self._owner is not me:
            raise RuntimeError('cannot release un-acquired lock')
        self._count -= 1
        if self._count == 0:
            self._owner = None

    def __enter__(self):
        self.acquire()
        return True

    def __exit__(self, *a):
        self.release()

    def _release_save(self):
        st = (self._owner, self._count)
        self._owner = None
        self._count = 0
        return st

    def _acquire_restore(self, st, me):
        self._owner, self._count = st

    def _is_owned_by(self, me):
        return self._owner is me


class SimCondition:
    def __init__(self, lock=None):
        _ctor_point('Condition')
        s = current_sim()
        self.name = s.new_obj_name('Condition') if s else 'Condition?'
        self._lock = lock if lock is not None else SimRLock()
        self._waiters = collections.deque()
        self.acquire = self._lock.acquire
        self.release = self._lock.release

    def __enter__(self):
        return self._lock.__enter__()

    def __exit__(self, *a):
        return self._lock.__exit__(*a)

    def wait(self, timeout=None):
        s = _sim()
        me = s.me()
        if not self._lock._is_owned_by(me):
            raise RuntimeError('cannot wait on un-acquired lock')
        s.yield_('cv.wait', self.name)
        w = [False]
        self._waiters.append(w)
        saved = self._lock._release_save()
        tm = _Timer(s, timeout)
        # wake needs a notification (or timeout) AND the lock to be free again
        s.yield_('cv.wake', self.name,
                 lambda: (w[0] or tm.fired) and self._lock._owner is None)
        if not w[0]:
            try:
                self._waiters.remove(w)
            except ValueError:
                pass
        self._lock._acquire_restore(saved, me)
        return w[0]

    def wait_for(self, predicate, timeout=None):
        s = _sim()
        end = None if timeout is None else s.now + timeout
        result = predicate()
        while not result:
            if end is not None:
                left = end - s.now
                if left <= 0:
                    break
                self.wait(left)
            else:
                self.wait(None)
            result = predicate()
        return result

    def notify(self, n=1):
        s = _sim()
        me = s.me()
        if not self._lock._is_owned_by(me):
            raise RuntimeError('cannot notify on un-acquired lock')
        s.yield_('cv.notify', self.name)
        k = 0
        while self._waiters and k < n:
            w = self._waiters.popleft()
            w[0] = True
            k += 1

    def notify_all(self):
        self.notify(len(self._waiters) + 1)

    notifyAll = notify_all


class SimSemaphore:
    def __init__(self, value=1):
        if value < 0:
            raise ValueError('semaphore initial value must be >= 0')
        _ctor_point('Semaphore')
        s = current_sim()
        self.name = s.new_obj_name('Semaphore') if s else 'Semaphore?'
        self._value = value

    def acquire(self, blocking=True, timeout=None):
        s = _sim()
        if not blocking:
            s.yield_('sem.try', self.name)
            if self._value > 0:
                self._value -= 1
                return True
            return False
        tm = _Timer(s, timeout)
        s.yield_('sem.acq', self.name, lambda: self._value > 0 or tm.fired)
        if self._value > 0:
            self._value -= 1
            return True
        return False

    __enter__ = acquire

    def release(self, n=1):
        s = _sim()
        s.yield_('sem.rel', self.name)
        self._value += n

    def __exit__(self, *a):
        self.release()


class SimBoundedSemaphore(SimSemaphore):
    def __init__(self, value=1):
        super().__init__(value)
        self._initial = value

    def release(self, n=1):
        s = _sim()
        s.yield_('sem.rel', self.name)
        if self._value + n > self._initial:
            raise ValueError('Semaphore released too many times')
        self._value += n


class SimBarrier:
    def __init__(self, parties, action=None, timeout=None):
        _ctor_point('Barrier')
        s = current_sim()
        self.name = s.new_obj_name('Barrier') if s else 'Barrier?'
        self._parties = parties
        self._action = action
        self._timeout = timeout
        self._gen = 0
        self._count = 0
        self._broken = False
        self._released = {}   # generation -> 'go' | 'broken'

    @property
    def parties(self):
        return self._parties

    @property
    def n_waiting(self):
        return self._count

    @property
    def broken(self):
        return self._broken

    def wait(self, timeout=None):
        s = _sim()
        if timeout is None:
            timeout = self._timeout
        s.yield_('bar.wait', self.name)
        if self._broken:
            raise BrokenBarrierError
        gen = self._gen
        index = self._count
        self._count += 1
        if self._count == self._parties:
            # last arrival: run action, release this generation
            try:
                if self._action:
                    self._action()
            except BaseException:
                self._break(gen)
                raise
            self._released[gen] = 'go'
            self._gen += 1
            self._count = 0
            s.rec('bar.trip', self.name, gen)
            return index
        tm = _Timer(s, timeout)
        s.yield_('bar.wake', self.name, lambda: gen in self._released or tm.fired)
        st = self._released.get(gen)
        if st == 'go':
            return index
        if st is None:
            # timed out: break the barrier
            self._break(gen)
        raise BrokenBarrierError

    def _break(self, gen):
        self._broken = True
        self._released[gen] = 'broken'

    def reset(self):
        s = _sim()
        s.yield_('bar.reset', self.name)
        if self._count > 0:
            self._released[self._gen] = 'broken'
        self._gen += 1
        self._count = 0
        self._broken = False

    def abort(self):
        s = _sim()
        s.yield_('bar.abort', self.name)
        self._break(self._gen)


class SimQueue:
    """queue.Queue (FIFO) with maxsize, task_done/join."""

    def __init__(self, maxsize=0):
        _ctor_point('Queue')
        s = current_sim()
        self.name = s.new_obj_name('Queue') if s else 'Queue?'
        self.maxsize = maxsize
        self._init()
        self._unfinished = 0

    def _init(self):
        self._items = collections.deque()

    def _put(self, item):
        self._items.append(item)

    def _get(self):
        return self._items.popleft()

    def qsize(self):
        return len(self._items)

    def empty(self):
        return not self._items

    def full(self):
        return 0 < self.maxsize <= len(self._items)

    def put(self, item, block=True, timeout=None):
        s = _sim()
        if not block:
            s.yield_('q.put', self.name, detail=_brief(item))
            if self.full():
                raise Full
        else:
            tm = _Timer(s, timeout)
            s.yield_('q.put', self.name, lambda: not self.full() or tm.fired,
                     detail=_brief(item))
            if self.full():
                raise Full
        self._put(item)
        self._unfinished += 1

    def put_nowait(self, item):
        return self.put(item, block=False)

    def get(self, block=True, timeout=None):
        s = _sim()
        if not block:
            s.yield_('q.get', self.name)
            if not self._items:
                raise Empty
        else:
            tm = _Timer(s, timeout)
            s.yield_('q.get', self.name, lambda: bool(self._items) or tm.fired)
            if not self._items:
                raise Empty
        item = self._get()
        if s.record_on and s.log:
            # attach what was taken to the record just written
            e = s.log[-1]
            s.log[-1] = (e[0], e[1], e[2], e[3], e[4], _brief(item))
        return item

    def get_nowait(self):
        return self.get(block=False)

    def task_done(self):
        s = _sim()
        s.yield_('q.done', self.name)
        if self._unfinished <= 0:
            raise ValueError('task_done() called too many times')
        self._unfinished -= 1

    def join(self):
        s = _sim()
        s.yield_('q.join', self.name, lambda: self._unfinished == 0)


class SimLifoQueue(SimQueue):
    def _init(self):
        self._items = []

    def _put(self, item):
        self._items.append(item)

    def _get(self):
        return self._items.pop()


class SimPriorityQueue(SimQueue):
    def _init(self):
        self._items = []

    def _put(self, item):
        heapq.heappush(self._items, item)

    def _get(self):
        return heapq.heappop(self._items)


class SimSimpleQueue(SimQueue):
    def __init__(self):
        super().__init__(0)


def _brief(x):
    """Deterministic short description of a queue item for the event log: strings as they are,
    plain values by repr, anything else by type name only (a default repr carries a memory
    address, which differs from process to process and would break the digest)."""
    if isinstance(x, str):
        return x if len(x) <= 80 else x[:77] + '...'
    if x is None or isinstance(x, (int, float, bool, bytes)):
        return repr(x)[:80]
    if isinstance(x, (tuple, list)) and len(x) <= 6:
        return type(x).__name__ + '(' + ','.join(_brief(y) for y in x) + ')'
    return '<' + type(x).__name__ + '>'


# ---------------------------------------------------------------------------------------------
# time
# ---------------------------------------------------------------------------------------------

class SimTimeModule:
    """Stand-in for the `time` module object inside bridge_env modules."""
    EPOCH = 1_600_000_000.0

    def __init__(self, real):
        self._real = real

    def sleep(self, d):
        if d < 0:
            raise ValueError('sleep length must be non-negative')
        s = _sim()
        tm = _Timer(s, d if d > 0 else 0)
        s.yield_('sleep', repr(d), lambda: tm.fired)

    def time(self):
        return self.EPOCH + _sim().now

    def monotonic(self):
        return _sim().now

    perf_counter = monotonic

    def time_ns(self):
        return int(self.time() * 1e9)

    def monotonic_ns(self):
        return int(_sim().now * 1e9)

    perf_counter_ns = monotonic_ns

    def __getattr__(self, name):
        return getattr(self._real, name)


# ---------------------------------------------------------------------------------------------
# threading.Thread start/join/is_alive
# ---------------------------------------------------------------------------------------------

_ORIG = {}
from .core import SimKill as _SK, SimSpin as _SS  # noqa: E402
_SimKillTypes = (_SK, _SS)


def patch_thread_class():
    """Patch threading.Thread so that threads started from simulated threads become simulated
    threads.  Outside an active simulation the original methods run."""
    T = _real_threading.Thread
    if _ORIG:
        return
    _ORIG['start'] = T.start
    _ORIG['join'] = T.join
    _ORIG['is_alive'] = T.is_alive

    def start(self):
        s = current_sim()
        if s is None or not s.in_sim_thread():
            return _ORIG['start'](self)
        if getattr(self, '_sim_thread', None) is not None:
            raise RuntimeError('threads can only be started once')
        s.yield_('thread.start', type(self).__name__)
        role_fn = getattr(s, 'role_for_thread', None)
        role = role_fn(self) if role_fn else f'{type(self).__name__}#{len(s.threads)}'
        parent = s.me()
        st = s.spawn(self.run, role, proc=parent.proc, daemon=bool(self.daemon))
        st.pytarget = self
        self._sim_thread = st

    def join(self, timeout=None):
        st = getattr(self, '_sim_thread', None)
        s = current_sim()
        if st is None or s is None or not s.in_sim_thread():
            return _ORIG['join'](self, timeout)
        if self.__dict__.get('_sim_marked_stopped'):
            return
        tm = _Timer(s, timeout)
        try:
            s.yield_('thread.join', st.role, lambda: st.finished or tm.fired)
        except BaseException as e:
            # CPython 3.12 (checked on this interpreter): when an exception such as
            # KeyboardInterrupt arrives while join() is blocked on a thread that is still running,
            # _wait_for_tstate_lock's handler releases that thread's state lock and marks it
            # stopped: from then on is_alive() is False and join() returns at once although the
            # thread goes on running.
            if not st.finished and not isinstance(e, _SimKillTypes):
                self.__dict__['_sim_marked_stopped'] = True
                s.rec('thread.join.interrupted', st.role, type(e).__name__)
            raise

    def is_alive(self):
        st = getattr(self, '_sim_thread', None)
        s = current_sim()
        if st is None or s is None or not s.in_sim_thread():
            return _ORIG['is_alive'](self)
        s.yield_('thread.alive', st.role)
        alive = not st.finished and not self.__dict__.get('_sim_marked_stopped')
        if s.record_on and s.log:
            e = s.log[-1]
            s.log[-1] = (e[0], e[1], e[2], e[3], e[4], alive)
        return alive

    T.start = start
    T.join = join
    T.is_alive = is_alive

    # Thread objects hash by address by default, so the iteration order of a set of threads (e.g.
    # ThreadPoolExecutor._threads, joined one by one in shutdown()) differs from process to
    # process and with it the order of yield points.  Hash by first-use sequence number instead
    # (equality stays identity).
    seq = [0]

    def thread_hash(self):
        h = self.__dict__.get('_sim_hash')
        if h is None:
            seq[0] += 1
            h = self.__dict__['_sim_hash'] = seq[0]
        return h
    T.__hash__ = thread_hash


class SimRandom:
    """Stand-in for the `random` module object inside bridge_env modules: one generator per
    simulated thread (so draws do not depend on the interleaving), seeded from the run's decision
    seed and the thread's role; choice()/sample()/shuffle() sort their argument first where
    possible so that set iteration order (hash-seed dependent) cannot leak in."""

    def __init__(self, real):
        import random as _r
        self._real = real
        self._R = _r.Random
        self.base_seed = 0
        self._gens = {}

    def reseed(self, base_seed):
        self.base_seed = base_seed
        self._gens = {}

    def _g(self):
        s = current_sim()
        role = s.me().role if (s and s.in_sim_thread()) else '-'
        g = self._gens.get(role)
        if g is None:
            g = self._R(f'{self.base_seed}/{role}')
            self._gens[role] = g
        return g

    @staticmethod
    def _canon(seq):
        seq = list(seq)
        try:
            return sorted(seq)
        except Exception:
            try:
                return sorted(seq, key=repr)
            except Exception:
                return seq

    def choice(self, seq):
        return self._g().choice(self._canon(seq))

    def shuffle(self, x):
        x.sort(key=lambda c: (int(c) if hasattr(c, '__int__') else repr(c)))
        self._g().shuffle(x)

    def sample(self, population, k):
        return self._g().sample(self._canon(population), k)

    def random(self):
        return self._g().random()

    def randint(self, a, b):
        return self._g().randint(a, b)

    def randrange(self, *a):
        return self._g().randrange(*a)

    def uniform(self, a, b):
        return self._g().uniform(a, b)

    def seed(self, *a):
        pass

    def __getattr__(self, name):
        return getattr(self._real, name)
