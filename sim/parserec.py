"""Recording wrappers around the protocol parsers of bridge_env (C19 A): every (input line,
returned value) pair of a run is logged so that it can be compared with the sender's intent."""
from __future__ import annotations

import functools

PARSE_LOG = []     # (name, args, result, exception-name)
PARSE_ROLE = []    # parallel to PARSE_LOG: role of the simulated thread that made the call
RECV_LOG = []      # (connection id, receiving side 'client'|'server', message or None, exception)
_on = [True]


def reset():
    del PARSE_LOG[:]
    del PARSE_ROLE[:]
    del RECV_LOG[:]


def _role():
    try:
        from .core import current_sim
        s = current_sim()
        if s is not None and s.active and s.in_sim_thread():
            return s.me().role
    except Exception:
        pass
    return '-'


def _wrap_receive(fn):
    """MessageInterface.receive_message: what every receiver of a session was handed, per
    connection and side (C19: received intact and in order however the bytes were split)."""
    @functools.wraps(fn)
    def w(self, *a, **k):
        sock = getattr(self, 'connection_socket', None)
        sock = getattr(sock, '_sock', sock)          # the harness's send-observing proxy
        conn = getattr(sock, '_conn', None)
        key = (getattr(conn, 'cid', None), getattr(sock, '_side', None))
        try:
            r = fn(self, *a, **k)
        except Exception as e:
            if _on[0]:
                RECV_LOG.append((key[0], key[1], None, type(e).__name__))
            raise
        if _on[0]:
            RECV_LOG.append((key[0], key[1], r, None))
        return r
    w._verif_wrapped = True
    return w


def _snap(r):
    # results may alias mutable state of the caller (a hand set that shrinks during play)
    if isinstance(r, tuple):
        return tuple(_snap(x) for x in r)
    if isinstance(r, (set, frozenset)):
        return frozenset(r)
    if isinstance(r, list):
        return list(r)
    return r


def _wrap(name, fn):
    names = fn.__code__.co_varnames[:fn.__code__.co_argcount]

    @functools.wraps(fn)
    def w(*a, **k):
        args = a
        if k:
            # positional view of the call, whatever way the arguments were passed
            args = a + tuple(k[n] for n in names[len(a):] if n in k)
        try:
            r = fn(*a, **k)
        except Exception as e:
            if _on[0]:
                PARSE_LOG.append((name, args, None, type(e).__name__))
                PARSE_ROLE.append(_role())
            raise
        if _on[0]:
            PARSE_LOG.append((name, args, _snap(r), None))
            PARSE_ROLE.append(_role())
        return r
    w._verif_wrapped = True
    return w


def install(mods):
    si = mods['socket_interface']
    cl = mods['client']
    sv = mods['server']
    targets = [
        (si.MessageInterface, 'parse_bid'),
        (si.MessageInterface, 'parse_card'),
        (cl.Client, 'parse_board'),
        (cl.Client, 'parse_cards'),
        (cl.Client, 'parse_hand'),
        (cl.Client, 'parse_team_names'),
        (cl.Client, 'parse_leader_message'),
        (sv.PlayerThread, 'parse_connection_info'),
    ]
    rm = si.MessageInterface.__dict__.get('receive_message')
    if rm is not None and not getattr(rm, '_verif_wrapped', False):
        si.MessageInterface.receive_message = _wrap_receive(rm)
    for cls, name in targets:
        raw = cls.__dict__.get(name)
        if raw is None:
            continue
        fn = raw.__func__ if isinstance(raw, (staticmethod, classmethod)) else raw
        if getattr(fn, '_verif_wrapped', False):
            continue
        if isinstance(raw, staticmethod):
            setattr(cls, name, staticmethod(_wrap(name, fn)))
        elif isinstance(raw, classmethod):
            # keep classmethod binding
            def mk(fn=fn, name=name):
                w = _wrap(name, lambda *a, **k: fn(*a, **k))
                return classmethod(lambda c, *a, **k: w(c, *a, **k))
            setattr(cls, name, mk())
        else:
            setattr(cls, name, _wrap(name, fn))
