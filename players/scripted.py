"""A protocol player of the harness's own, driven by refbridge and a pre-computed script.

It varies exactly what the properties name as admissible: card notation (2C / C2), letter case,
an `Alert.` suffix on a call, and runs of spaces in the "... ready ..." handshake lines (where the
server documents that it tolerates them).  In abort scenarios it is also the source of offending
actions.  It never imports bridge_env.
"""
from __future__ import annotations

import random

from model import refbridge as rb
from model.protocol import tokenize
from sim.net import SimSocket


class LineReader:
    def __init__(self, sock):
        self.sock = sock
        self.buf = b''
        self.eof = False

    def readline(self):
        """-> str without CR LF, or None at end of stream"""
        while True:
            i = self.buf.find(b'\r\n')
            if i >= 0:
                line = self.buf[:i]
                self.buf = self.buf[i + 2:]
                return line.decode('utf-8', 'replace')
            if self.eof:
                return None
            try:
                d = self.sock.recv(4096)
            except (ConnectionResetError, OSError):
                self.eof = True
                return None
            if not d:
                self.eof = True
                return None
            self.buf += d


class Style:
    """Spelling choices of one seat (all admissible by the protocol)."""

    def __init__(self, notation='RS', case='asis', alert=0.0, spaces=False):
        self.notation = notation    # 'RS' rank-suit ("2C") or 'SR' ("C2") or 'mix'
        self.case = case            # 'asis' | 'upper' | 'lower' | 'mix'
        self.alert = alert          # probability of an alert suffix on a call
        self.spaces = spaces        # runs of spaces in handshake lines

    def to_json(self):
        return {'notation': self.notation, 'case': self.case, 'alert': self.alert,
                'spaces': self.spaces}

    @classmethod
    def from_json(cls, d):
        return cls(d['notation'], d['case'], d['alert'], d['spaces'])


from sim.core import current_sim as core_current_sim  # noqa: E402

ALERTS = (' Alert.', ' alert. ', '  Alert. ')


class ScriptedPlayer:
    """One connection request + (if seated) a full conforming session."""

    def __init__(self, seat, team, script, style, seed, addr, version=18, overrides=None,
                 name=None, on_verdict=None, vanish=None, pre_connect=None, post_connect=None,
                 linger_gate=None, impatient=False, half_close=False):
        self.seat = seat
        self.team = team
        self.script = script            # list of {'calls': [...], 'cards': [...]} per board
        self.style = style
        self.rng = random.Random(f'scripted/{seed}/{seat}')
        self.addr = addr
        self.version = version
        self.overrides = overrides or {}   # (board_idx, 'call'|'card', index) -> raw line
        self.name = name or f'client:{seat}'
        self.on_verdict = on_verdict
        # vanish = (board_idx, 'call'|'card', index): close the socket there, when this seat is the
        # one to act; vanish = (board_idx, phase, index, 'any'): close it when the session reaches
        # that point, whoever is to act (phase may also be 'deal': before "ready for deal")
        self.vanish_any = None
        # vanish = (0, 'connect', k): send only the first k bytes of the connecting line, then close
        self.drop_connect = None
        if vanish is not None and len(vanish) == 3 and vanish[1] == 'connect':
            self.drop_connect = int(vanish[2])
            vanish = None
        if vanish is not None and len(vanish) == 4:
            self.vanish_any = tuple(vanish[:3])
            vanish = None
        self.vanish = vanish
        self.pre_connect = pre_connect
        self.post_connect = post_connect
        # linger_gate: an Event; a requester that is turned away then neither reads on nor hangs
        # up -- it just sits there (a program showing an error dialog) until the gate opens.  The
        # table manager must close its side and go on accepting regardless.
        self.linger_gate = linger_gate
        # impatient: the program sends its (complete, well-formed) request and hangs up at once,
        # without waiting for the answer.  Only requests that are refused whatever the order
        # (wrong protocol version) are made impatient; the table manager must answer, close and
        # go on accepting all the same.
        self.impatient = impatient
        # half_close: after the last message this seat will ever have to send (its part of the
        # 52nd card of the last board, or of the fourth pass of a passed-out last board) the
        # program shuts down the sending direction of its connection (TCP half-close) and only
        # reads from then on.  It is still owed everything the protocol entitles it to.
        self.half_close = half_close
        # observations
        self.sent = []                  # raw lines sent
        self.received = []              # raw lines received
        self.intents = []               # ('CALL', board_idx, seat, call) / ('CARD', board_idx, seat, card)
        self.verdict = None             # 'seated' | 'rejected' | None
        self.error_line = None
        self.anomalies = []
        self.finished = False
        self.boards_done = 0
        self.got_end = False
        self.teams = None
        self.offended = False
        self.sock = None

    kind = 'scripted'

    # -- spelling -----------------------------------------------------------------------------
    def _case(self, text):
        c = self.style.case
        if c == 'upper':
            return text.upper()
        if c == 'lower':
            return text.lower()
        if c == 'mix':
            return ''.join(ch.upper() if self.rng.random() < 0.5 else ch.lower() for ch in text)
        return text

    def _sp(self, text):
        text = self._case(text)
        if not self.style.spaces:
            return text
        return ''.join(' ' * self.rng.choice((1, 1, 2, 3)) if ch == ' ' else ch for ch in text)

    def _name(self, seat=None):
        return rb.SEAT_NAMES[seat or self.seat]

    def call_line(self, call):
        if call == 'Pass':
            body = 'passes'
        elif call == 'X':
            body = 'doubles'
        elif call == 'XX':
            body = 'redoubles'
        else:
            body = 'bids ' + call
        line = self._case(f'{self._name()} {body}')
        if self.style.alert and self.rng.random() < self.style.alert:
            line += self.rng.choice(ALERTS)
        return line

    def card_line(self, owner, card):
        n = self.style.notation
        if n == 'mix':
            n = self.rng.choice(('RS', 'SR'))
        txt = card[1] + card[0] if n == 'RS' else card
        return self._case(f'{self._name(owner)} plays {txt}')

    # -- io -----------------------------------------------------------------------------------
    def send(self, line):
        self.sent.append(line)
        self.sock.sendall((line + '\r\n').encode('utf-8'))

    def recv(self):
        line = self.reader.readline()
        if line is not None:
            self.received.append(line)
        return line

    def _expect(self, kind):
        line = self.recv()
        if line is None:
            self.anomalies.append(f'EOF while expecting {kind}')
            raise _Stop()
        tok = tokenize(line)
        if tok[0] != kind:
            self.anomalies.append(f'expected {kind}, got {line!r}')
            raise _Stop()
        return tok

    # -- session -------------------------------------------------------------------------------
    def run(self):
        try:
            self._run()
        except _Stop:
            pass
        finally:
            self.finished = True
            try:
                if self.sock is not None:
                    self.sock.close()
            except OSError:
                pass

    def _run(self):
        self.sock = SimSocket()
        self.reader = LineReader(self.sock)
        if self.pre_connect is not None:
            self.pre_connect()
        try:
            self.sock.connect(self.addr)
        except OSError:
            # the table manager has gone (session over): nothing to evaluate for this request
            self.verdict = 'refused'
            if self.post_connect is not None:
                self.post_connect()
            self._verdict()
            raise _Stop()
        if self.post_connect is not None:
            self.post_connect()
        # the whole request may be case-mangled except the quoted team name
        request = self._case('Connecting ') + f'"{self.team}"' + \
            self._case(f' as {self._name()} using protocol version ') + f'{self.version}'
        if self.drop_connect is not None:
            full = (request + '\r\n').encode('utf-8')
            # a huge k stands for "everything up to and including the CR, the LF never comes"
            data = full[:-1] if self.drop_connect >= 100000 else full[:self.drop_connect]
            if data:
                self.sock.sendall(data)
            self.sock.close()
            self.offended = True
            raise _Stop()
        self.send(request)
        if self.impatient:
            self.sock.close()
            self.verdict = 'gone'
            self._verdict()
            raise _Stop()
        line = self.recv()
        if line is None:
            self.verdict = 'closed'
            self._verdict()
            raise _Stop()
        tok = tokenize(line)
        if tok[0] == 'ERROR':
            self.verdict = 'rejected'
            self.error_line = line
            if self.linger_gate is not None:
                self._verdict()
                self.linger_gate.wait()
                raise _Stop()
            # a rejected client must see nothing but end-of-stream afterwards
            extra = self.recv()
            while extra is not None:
                extra = self.recv()
            self._verdict()
            raise _Stop()
        if tok[0] != 'SEATED':
            self.verdict = 'garbled'
            self.anomalies.append(f'unexpected reply to connect: {line!r}')
            self._verdict()
            raise _Stop()
        self.verdict = 'seated'
        self._verdict()
        self.send(self._sp(f'{self._name()} ready for teams'))
        tok = self._expect('TEAMS')
        self.teams = (tok[1], tok[2])
        self.send(self._sp(f'{self._name()} ready to start'))
        b = 0
        while True:
            line = self.recv()
            if line is None:
                self.anomalies.append('EOF between boards')
                raise _Stop()
            tok = tokenize(line)
            if tok[0] == 'END':
                self.got_end = True
                return
            if tok[0] != 'START':
                self.anomalies.append(f'expected start of board, got {line!r}')
                raise _Stop()
            self._board(b)
            b += 1
            self.boards_done = b

    def _verdict(self):
        if self.on_verdict is not None:
            self.on_verdict(self)

    def _scripted(self, b, what, i):
        sc = self.script[b] if b < len(self.script) else None
        if sc is None:
            return None
        lst = sc['calls'] if what == 'call' else sc['cards']
        return lst[i] if i < len(lst) else None

    def _maybe_vanish(self, key):
        if self.vanish is not None and tuple(self.vanish) == key:
            self.sock.close()
            self.offended = True
            raise _Stop()

    def _maybe_half_close(self, b, phase, index):
        if not self.half_close or b != len(self.script) - 1:
            return
        calls = self.script[b]['calls']
        passed_out = len(calls) == 4 and all(c == 'Pass' for c in calls)
        if (phase == 'call' and passed_out and index == 3) or (phase == 'card' and index == 51):
            import socket as _s
            self.sock.shutdown(_s.SHUT_WR)
            s = core_current_sim()
            if s is not None:
                s.count_fault('client.half_close')

    def _maybe_leave(self, key):
        if self.vanish_any is not None and self.vanish_any == key:
            self.sock.close()
            self.offended = True
            raise _Stop()

    def _board(self, b):
        me = self.seat
        self._maybe_leave((b, 'deal', 0))
        self.send(self._sp(f'{self._name()} ready for deal'))
        hdr = self._expect('HEADER')
        dealer = hdr[2]
        self.send(self._sp(f'{self._name()} ready for cards'))
        cards = self._expect('CARDS')
        if cards[1] != me:
            self.anomalies.append(f'got the cards of {cards[1]}')
        hand = set(cards[2])
        a = rb.Auction(dealer)
        while not a.done:
            i = len(a.calls)
            self._maybe_leave((b, 'call', i))
            if a.turn == me:
                self._maybe_vanish((b, 'call', i))
                raw = self.overrides.get((b, 'call', i))
                if raw is not None:
                    self.offended = True
                    self.send(raw)
                    self._drain()
                call = self._scripted(b, 'call', i)
                if call is None or not a.legal(call):
                    self.anomalies.append(f'script has no legal call at board {b} call {i}')
                    call = 'Pass'
                self.intents.append(('CALL', b, me, call))
                self.send(self.call_line(call))
                self._maybe_half_close(b, 'call', i)
                a.apply(call)
            else:
                self.send(self._sp(f"{self._name()} ready for {self._name(a.turn)}'s bid"))
                self._maybe_half_close(b, 'call', i)
                tok = self._expect('CALL')
                if tok[1] != a.turn or not a.legal(tok[2]):
                    self.anomalies.append(f'relayed call {tok} not legal for {a.turn}')
                    raise _Stop()
                a.apply(tok[2])
        res = a.result()
        if res['declarer'] is None:
            return
        declarer = res['declarer']
        dummy = rb.partner(declarer)
        # own replica: only what this seat may know
        hands = {s: set() for s in rb.SEATS}
        hands[me] = hand
        p = _BlindPlay(declarer, res['denom'])
        dummy_hand = None
        n = 0
        while not p.done:
            turn = p.turn
            self._maybe_leave((b, 'card', n))
            i_act = (turn == me and me != dummy) or (turn == dummy and me == declarer)
            if i_act and not p.trick:
                tok = self._expect('LEAD')
                want = 'Dummy' if turn == dummy else me
                if tok[1] != want:
                    self.anomalies.append(f'lead prompt {tok} but {want} leads')
            if i_act:
                self._maybe_vanish((b, 'card', n))
                raw = self.overrides.get((b, 'card', n))
                if raw is not None:
                    self.offended = True
                    self.send(raw)
                    self._drain()
                card = self._scripted(b, 'card', n)
                pool = hand if turn == me else (dummy_hand or set())
                if card is None or card not in pool:
                    self.anomalies.append(f'script card {card} not available at board {b} card {n}')
                    if not pool:
                        raise _Stop()
                    card = sorted(pool, key=rb.card_index)[0]
                pool.discard(card)
                self.intents.append(('CARD', b, turn, card))
                self.send(self.card_line(turn, card))
                self._maybe_half_close(b, 'card', n)
            else:
                who = 'dummy' if turn == dummy else self._name(turn)
                self.send(self._sp(f"{self._name()} ready for {who}'s card to trick "
                                   f"{p.trick_no}"))
                self._maybe_half_close(b, 'card', n)
                tok = self._expect('CARD')
                card = tok[2]
                if tok[1] != turn:
                    self.anomalies.append(f'relayed card {tok} but {turn} is on turn')
                    raise _Stop()
                if turn == me:
                    # own card played by declarer (this seat is dummy)
                    hand.discard(card)
                elif turn == dummy and dummy_hand is not None:
                    dummy_hand.discard(card)
            p.apply(card)
            n += 1
            if n == 1 and me != dummy:
                self.send(self._sp(f'{self._name()} ready for dummy'))
                tok = self._expect('DUMMY')
                dummy_hand = set(tok[1])

    def _drain(self):
        """after an offending action: the session is over for this client; read whatever comes"""
        if self.overrides.get(('crash',)):
            self.sock.close()
            raise _Stop()
        while self.recv() is not None:
            pass
        raise _Stop()


class _BlindPlay(rb.Play):
    """refbridge.Play without knowledge of the hands (a seat's public view)."""

    def __init__(self, declarer, denom):
        super().__init__({s: () for s in rb.SEATS}, declarer, denom)

    def apply(self, card):
        self.hands[self.turn].add(card)
        super().apply(card)


class _Stop(Exception):
    pass
