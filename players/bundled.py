"""The real bridge_env Client as a simulated player, with harness-supplied policies that are also
the observation window into the client's replicas of the auction and the play."""
from __future__ import annotations

from model import refbridge as rb
from sim import seams
from sim.core import current_sim


def seat_of(player):
    return rb.SEATS[player.value - 1]


def call_of(bid):
    return rb.CALLS[bid.value - 1]


def card_of(card):
    return rb.SUITS[card.suit.value - 1] + rb.RANKS[card.rank - 2]


def snap_auction(env):
    avail = env.available_bid
    return {
        'n': len(env.bid_history),
        'history': [call_of(b) for b in env.bid_history],
        'active': seat_of(env.active_player) if env.active_player is not None else None,
        'available': sorted((rb.CALLS[i] for i in range(38) if avail[i] == 1),
                            key=rb.CALLS.index),
        'dealer': seat_of(env.dealer),
        'done': env.has_done(),
        'per_seat': {seat_of(p): [call_of(b) for b in h]
                     for p, h in env.players_bid_history.items()},
    }


def snap_contract(c):
    if c is None:
        return None
    if c.is_passed_out():
        return {'contract': 'Passed_out', 'declarer': None, 'vul': c.vul.value}
    st = 'XX' if c.xx else ('X' if c.x else '')
    return {'contract': rb.CALLS[c.final_bid.value - 1] + st,
            'declarer': seat_of(c.declarer) if c.declarer is not None else None,
            'vul': c.vul.value, 'x': c.x, 'xx': c.xx}


def snap_play(env):
    d = {
        'ncards': len(env.used_cards) if hasattr(env, 'used_cards') else None,
        'trick_no': env.trick_num,
        'leader': seat_of(env.leader),
        'active': seat_of(env.active_player),
        'taken': {pair.name: n for pair, n in env.taken_tricks.items()},
        'history': [(seat_of(t.leader), [card_of(c) for c in t.cards])
                    for t in env.playing_history.history],
        'declarer': seat_of(env.declarer),
        'dummy': seat_of(env.dummy),
        'trump': env.trump.name,
        'done': env.has_done(),
    }
    if hasattr(env, 'hand'):
        d['hand'] = sorted(card_of(c) for c in env.hand)
        dh = env.dummy_hand
        d['dummy_hand'] = None if dh is None else sorted(card_of(c) for c in dh)
        d['player'] = seat_of(env.player)
    return d


GAP = 'harness-gap'


class Observations:
    """Everything observed inside one bundled client."""

    def __init__(self, seat):
        self.seat = seat
        self.gaps = 0                # observation points the harness could not read
        self.auction_points = []     # (board_idx, snapshot) at every own call
        self.play_points = []        # (board_idx, snapshot, offered set, pool 'hand'|'dummy')
        self.contracts = []          # snap_contract of Client.bidding_phase() per board
        self.final_auctions = []     # snapshot at end of auction per board
        self.final_plays = []        # snapshot at end of play per board (None if passed out)
        self.board = 0
        self.exception = None
        self.exception_tb = None
        self.got_end = False
        self.finished = False
        self.anomalies = []
        self.auction_envs = []
        self.play_envs = []
        self.deal_info = []          # (board_num, dealer, vul, hand) parsed by the client


def make_policies(mods, obs, script, kind):
    """kind: 'script' | 'shipped'.  Returns (bidding_system, playing_system)."""
    be = mods['bridge_env']
    from bridge_env.network_bridge.bidding_system import BiddingSystem, WeakBid, AlwaysPass
    from bridge_env.network_bridge.playing_system import PlayingSystem, RandomPlay
    Bid = be.Bid
    Card = be.Card
    Suit = be.Suit

    def to_bid(call):
        return Bid(rb.CALLS.index(call) + 1)

    def to_card(card):
        return Card(rb.RANKS.index(card[1]) + 2, Suit(rb.SUITS.index(card[0]) + 1))

    class ScriptBid(BiddingSystem):
        def __init__(self, inner=None):
            self.inner = inner

        def bid(self, hand, bidding_phase):
            snap = snap_auction(bidding_phase)
            snap['hand52'] = sum(hand)
            obs.auction_points.append((obs.board, snap))
            if self.inner is not None:
                return self.inner.bid(hand, bidding_phase)
            sc = script[obs.board] if obs.board < len(script) else None
            i = snap['n']
            if sc is None or i >= len(sc['calls']):
                obs.anomalies.append(f'no scripted call at board {obs.board} call {i}')
                return Bid.Pass
            return to_bid(sc['calls'][i])

    class ScriptPlay(PlayingSystem):
        def __init__(self, inner=None):
            self.inner = inner

        def play(self, hand, playing_phase):
            snap = snap_play(playing_phase)
            pool = 'hand' if hand is playing_phase.hand else 'dummy'
            offered = sorted(card_of(c) for c in playing_phase.current_available_cards(hand))
            held = sorted(card_of(c) for c in hand)
            obs.play_points.append((obs.board, snap, offered, pool, held))
            if self.inner is not None:
                return self.inner.play(hand, playing_phase)
            sc = script[obs.board] if obs.board < len(script) else None
            i = snap['ncards']
            if sc is None or i >= len(sc['cards']):
                obs.anomalies.append(f'no scripted card at board {obs.board} card {i}')
                return sorted(hand)[0]
            return to_card(sc['cards'][i])

    if kind == 'shipped':
        return ScriptBid(WeakBid()), ScriptPlay(RandomPlay())
    if kind == 'shipped-pass':
        return ScriptBid(AlwaysPass()), ScriptPlay(RandomPlay())
    return ScriptBid(), ScriptPlay()


_REG = {}   # sim thread role -> Observations


def install_recording_replicas(mods):
    """Substitute registering subclasses for client.BiddingPhase / client.ObservedPlayingPhase so
    that every replica the client constructs can be read at end of board."""
    client = mods['client']
    if getattr(client, '_verif_rec', False):
        return
    BaseB = client.BiddingPhase
    BaseO = client.ObservedPlayingPhase

    class RecBiddingPhase(BaseB):
        def __init__(self, *a, **k):
            super().__init__(*a, **k)
            o = _current_obs()
            if o is not None:
                o.auction_envs.append(self)

    class RecObservedPlayingPhase(BaseO):
        def __init__(self, *a, **k):
            super().__init__(*a, **k)
            o = _current_obs()
            if o is not None:
                o.play_envs.append(self)

    client.BiddingPhase = RecBiddingPhase
    client.ObservedPlayingPhase = RecObservedPlayingPhase
    client._verif_rec = True


def _current_obs():
    s = current_sim()
    if s is None or not s.in_sim_thread():
        return None
    return _REG.get(s.me().role)


class BundledPlayer:
    kind = 'bundled'

    def __init__(self, seat, team, script, policy_kind, addr, name=None, on_verdict=None,
                 pre_connect=None, post_connect=None, version=18):
        self.version = version
        self.seat = seat
        self.team = team
        self.script = script
        self.policy_kind = policy_kind
        self.addr = addr
        self.name = name or f'client:{seat}'
        self.on_verdict = on_verdict
        self.pre_connect = pre_connect
        self.post_connect = post_connect
        self.obs = Observations(seat)
        self.verdict = None
        self.finished = False
        self.got_end = False
        self.anomalies = self.obs.anomalies
        self.offended = False
        self.error_line = None
        self.intents = None

    def run(self):
        mods = seams.install()
        install_recording_replicas(mods)
        client_mod = mods['client']
        be = mods['bridge_env']
        obs = self.obs
        _REG[self.name] = obs
        bsys, psys = make_policies(mods, obs, self.script, self.policy_kind)
        player = be.Player(rb.SEATS.index(self.seat) + 1)
        outer = self

        class RecClient(client_mod.Client):
            def __enter__(self):
                r = super().__enter__()
                # the hooks sit on the socket object itself: Client._connect reaches
                # SocketInterface.connect_socket through super(), so an overriding method on this
                # subclass would never be called
                sock = self._socket
                real_connect = sock.connect

                def connect(addr):
                    if outer.pre_connect is not None:
                        outer.pre_connect()
                    try:
                        real_connect(addr)
                    finally:
                        if outer.post_connect is not None:
                            outer.post_connect()
                sock.connect = connect
                return r

            def _connect(self):
                try:
                    super()._connect()
                except BaseException:
                    if outer.verdict is None:
                        outer.verdict = 'rejected'
                        outer._verdict()
                    raise
                if outer.verdict is None:
                    outer.verdict = 'seated'
                    outer._verdict()

            # The observation code below reads attributes of the client under test; if a
            # (behaviour-preserving) change renames one of them that is a gap in the harness's
            # view, never an exception inside the client: GAP entries are skipped by the oracle
            # and counted in the evidence.
            def _deal(self):
                super()._deal()
                try:
                    obs.deal_info.append((self.board_num, seat_of(self.dealer), self.vul.value,
                                          sorted(card_of(c) for c in self.hand_set)))
                except Exception:
                    obs.deal_info.append(GAP)
                    obs.gaps += 1

            def bidding_phase(self):
                n0 = len(obs.auction_envs)
                c = super().bidding_phase()
                try:
                    obs.contracts.append(snap_contract(c))
                except Exception:
                    obs.contracts.append(GAP)
                    obs.gaps += 1
                try:
                    env = obs.auction_envs[-1] if len(obs.auction_envs) > n0 else None
                    obs.final_auctions.append(snap_auction(env) if env is not None else None)
                except Exception:
                    obs.final_auctions.append(None)
                    obs.gaps += 1
                try:
                    passed_out = c.is_passed_out()
                except Exception:
                    passed_out = False
                    obs.gaps += 1
                if passed_out:
                    obs.final_plays.append(None)
                    obs.board += 1
                return c

            def playing_phase(self, contract):
                n0 = len(obs.play_envs)
                try:
                    super().playing_phase(contract)
                finally:
                    try:
                        env = obs.play_envs[-1] if len(obs.play_envs) > n0 else None
                        obs.final_plays.append(snap_play(env) if env is not None else None)
                    except Exception:
                        obs.final_plays.append(None)
                        obs.gaps += 1
                    obs.board += 1

        try:
            with RecClient(player=player, team_name=self.team, bidding_system=bsys,
                           playing_system=psys, ip_address=self.addr[0],
                           port=self.addr[1]) as c:
                if self.version != 18:
                    c.PROTOCOL_VERSION = self.version
                # the client answers "ready for teams" as soon as it has accepted the "seated"
                # reply: that is the moment its admission verdict is known
                c.connection_socket = _SockProxy(c.connection_socket, self._on_send)
                c.run()
            obs.got_end = True
            self.got_end = True
        except Exception as e:  # the client gave up: recorded, judged by the oracle
            import traceback
            obs.exception = f'{type(e).__name__}: {e}'
            obs.exception_tb = traceback.format_exc(limit=8)
        finally:
            obs.finished = True
            self.finished = True
            _REG.pop(self.name, None)

    def _verdict(self):
        if self.on_verdict is not None:
            self.on_verdict(self)

    def _on_send(self, data):
        if self.verdict is None and data.rstrip().lower().endswith(b'ready for teams'):
            self.verdict = 'seated'
            self._verdict()


class _SockProxy:
    """Forwards everything to the simulated socket; tells the harness what is being sent."""

    def __init__(self, sock, on_send):
        self._sock = sock
        self._on_send = on_send

    def sendall(self, data, *a):
        self._on_send(bytes(data))
        return self._sock.sendall(data, *a)

    def send(self, data, *a):
        self._on_send(bytes(data))
        return self._sock.send(data, *a)

    def __getattr__(self, name):
        return getattr(self._sock, name)
